//! C16 — bytes from peers can be rejected but never crash the node or forge a block.
//!
//! (A) decode sweep: every byte string of length 0..=2, and every truncation / single-byte
//!     substitution / header-word replacement / bit flip of the 27 zoo messages (raw and inside a
//!     compressed frame), pushed through decompression, compatible decoding (the production
//!     mode) and a full accessor walk incl. the context-free verifiers, under catch_unwind;
//! (B) compact-block reconstruction with the real Relayer on a real pool: every prefilled index
//!     subset containing 0 x every pool-availability subset x every peer-supplied subset (incl. a
//!     foreign tx) x short-id / proposal / extension tampering; the result must be the announced
//!     block, a precise missing report, a collision or an error - never a different block.
use crate::core::*;
use crate::node::*;
use crate::world::*;
use crate::zoo;
use ckb_network::compress::{compress, decompress};
use ckb_sync::{Relayer, SyncShared};
use ckb_types::{
    bytes::{Bytes, BytesMut},
    core::{BlockBuilder, BlockView, TransactionView},
    packed,
    prelude::*,
};
use ckb_verification::{BlockVerifier, NonContextualTransactionVerifier};
use ckb_verification_traits::Verifier;
use rayon::prelude::*;
use serde_json::{Value, json};
use std::collections::HashSet;
use std::sync::Arc;

fn walk_tx(tx: &packed::Transaction, cons: &ckb_chain_spec::consensus::Consensus) {
    let v = tx.clone().into_view();
    let _ = (v.hash(), v.witness_hash(), v.proposal_short_id(), v.data().serialized_size_in_block(), v.is_cellbase(), v.outputs_capacity());
    for i in v.inputs().into_iter() {
        let _: u64 = i.since().into();
        let _ = i.previous_output().to_cell_key();
    }
    for (o, d) in v.outputs_with_data_iter() {
        let _ = (o.occupied_capacity(ckb_types::core::Capacity::bytes(d.len()).unwrap_or(ckb_types::core::Capacity::zero())), o.lock().calc_script_hash(), o.type_().to_opt().map(|t| t.calc_script_hash()));
    }
    let _ = NonContextualTransactionVerifier::new(&v, cons).verify();
    let _ = format!("{tx}");
}

fn walk_block(b: &packed::Block, cons: &ckb_chain_spec::consensus::Consensus) {
    let _ = (b.count_extra_fields(), b.serialized_size_without_uncle_proposals());
    let v = b.clone().into_view();
    let _ = (v.hash(), v.calc_transactions_root(), v.calc_extra_hash().extra_hash(), v.union_proposal_ids(), v.extension().map(|e| e.len()));
    for u in v.uncles().into_iter() {
        let _ = (u.hash(), u.data().proposals().len());
    }
    let _ = BlockVerifier::new(cons).verify(&v);
    let cb = packed::CompactBlock::build_from_block(&v, &HashSet::new());
    let _ = ckb_sync::verif::compact_block_verify(&cb);
    for tx in b.transactions().into_iter() {
        walk_tx(&tx, cons);
    }
}

fn walk_compact(cb: &packed::CompactBlock) {
    let _ = (cb.calc_header_hash(), cb.txs_len(), cb.block_short_ids().len(), cb.short_id_indexes().len(), cb.extension().map(|e| e.len()));
    let st = ckb_sync::verif::compact_block_verify(cb);
    if st.is_ok() {
        // only verified compact blocks reach these in production
        let idx: Vec<u32> = cb.short_id_indexes().iter().map(|i| *i as u32).collect();
        let _ = ckb_sync::verif::block_transactions_verify(cb, &idx, &[]);
        let _ = ckb_sync::verif::block_uncles_verify(cb, &[], &[]);
    }
    let _ = format!("{cb}");
}

/// What the four protocol handlers do with a payload before any chain access.
fn decode_and_walk(family: &str, data: &[u8], cons: &ckb_chain_spec::consensus::Consensus) -> bool {
    match family {
        "Sync" => match packed::SyncMessageReader::from_compatible_slice(data) {
            Ok(m) => {
                match m.to_enum() {
                    packed::SyncMessageUnionReader::SendBlock(r) => {
                        // the production decode boundary (Synchronizer::received): refused here = refused there
                        if ckb_sync::verif::send_block_is_malformed(&r) {
                            return false;
                        }
                        walk_block(&r.block().to_entity(), cons);
                    }
                    other if packed::SyncMessageReader::from_slice(data).is_err() => {
                        // every other arm must also pass strict decoding in production
                        let _ = other;
                        return false;
                    }
                    packed::SyncMessageUnionReader::SendHeaders(r) => {
                        for h in r.headers().iter() {
                            let hv = h.to_entity().into_view();
                            let _ = (hv.hash(), hv.difficulty(), hv.epoch().is_well_formed());
                        }
                    }
                    packed::SyncMessageUnionReader::GetHeaders(r) => {
                        let _ = (r.block_locator_hashes().len(), r.hash_stop().to_entity());
                    }
                    packed::SyncMessageUnionReader::GetBlocks(r) => {
                        let _ = r.block_hashes().iter().map(|h| h.to_entity()).count();
                    }
                    packed::SyncMessageUnionReader::InIBD(_) => {}
                }
                let _ = format!("{}", m.to_entity());
                true
            }
            Err(_) => false,
        },
        "Relay" => match packed::RelayMessageReader::from_compatible_slice(data) {
            Ok(m) => {
                match m.to_enum() {
                    packed::RelayMessageUnionReader::CompactBlock(r) => {
                        // the production decode boundary (Relayer::received)
                        if ckb_sync::verif::compact_block_is_malformed(&r) {
                            return false;
                        }
                        walk_compact(&r.to_entity())
                    }
                    other if packed::RelayMessageReader::from_slice(data).is_err() => {
                        let _ = other;
                        return false;
                    }
                    packed::RelayMessageUnionReader::RelayTransactions(r) => {
                        for t in r.transactions().iter() {
                            let _: u64 = t.cycles().into();
                            walk_tx(&t.transaction().to_entity(), cons);
                        }
                    }
                    packed::RelayMessageUnionReader::BlockTransactions(r) => {
                        for t in r.transactions().iter() {
                            walk_tx(&t.to_entity(), cons);
                        }
                        for u in r.uncles().iter() {
                            let _ = u.to_entity().into_view().hash();
                        }
                    }
                    packed::RelayMessageUnionReader::BlockProposal(r) => {
                        for t in r.transactions().iter() {
                            walk_tx(&t.to_entity(), cons);
                        }
                    }
                    packed::RelayMessageUnionReader::GetBlockTransactions(r) => {
                        let _: Vec<u32> = r.indexes().iter().map(|i| i.into()).collect();
                        let _: Vec<u32> = r.uncle_indexes().iter().map(|i| i.into()).collect();
                    }
                    packed::RelayMessageUnionReader::GetBlockProposal(r) => {
                        let _ = r.proposals().iter().map(|p| p.to_entity()).count();
                    }
                    packed::RelayMessageUnionReader::RelayTransactionHashes(r) => {
                        let _ = r.tx_hashes().len();
                    }
                    packed::RelayMessageUnionReader::GetRelayTransactions(r) => {
                        let _ = r.tx_hashes().len();
                    }
                }
                let _ = format!("{}", m.to_entity());
                true
            }
            Err(_) => false,
        },
        "Filter" => match packed::BlockFilterMessageReader::from_compatible_slice(data) {
            Ok(m) => {
                let _ = format!("{}", m.to_entity());
                if let packed::BlockFilterMessageUnionReader::BlockFilters(r) = m.to_enum() {
                    let _ = (r.block_hashes().len(), r.filters().iter().map(|f| f.raw_data().len()).sum::<usize>());
                }
                true
            }
            Err(_) => false,
        },
        _ => match packed::LightClientMessageReader::from_compatible_slice(data) {
            Ok(m) => {
                let _ = format!("{}", m.to_entity());
                match m.to_enum() {
                    packed::LightClientMessageUnionReader::SendLastStateProof(r) => {
                        for h in r.headers().iter() {
                            let vh: ckb_types::utilities::merkle_mountain_range::VerifiableHeader = h.to_entity().into();
                            let _ = (vh.header().hash(), vh.is_valid(0), vh.is_valid(u64::MAX), vh.total_difficulty());
                        }
                    }
                    packed::LightClientMessageUnionReader::SendTransactionsProof(r) => {
                        for fb in r.filtered_blocks().iter() {
                            for t in fb.transactions().iter() {
                                walk_tx(&t.to_entity(), cons);
                            }
                        }
                    }
                    _ => {}
                }
                true
            }
            Err(_) => false,
        },
    }
}

fn mutants(bytes: &[u8]) -> Vec<Vec<u8>> {
    let mut out = vec![];
    for cut in 0..bytes.len() {
        out.push(bytes[..cut].to_vec());
    }
    for i in 0..bytes.len() {
        let b = bytes[i];
        for v in [0x00u8, 0x01, 0x7f, 0x80, 0xff, b.wrapping_sub(1), b.wrapping_add(1)] {
            if v != b {
                let mut m = bytes.to_vec();
                m[i] = v;
                out.push(m);
            }
        }
    }
    let len = bytes.len() as u32;
    for w in (0..bytes.len().saturating_sub(3)).step_by(4) {
        for v in [0u32, 1, len.wrapping_sub(1), len, len.wrapping_add(1), 0x7fff_ffff, 0xffff_ffff] {
            let mut m = bytes.to_vec();
            m[w..w + 4].copy_from_slice(&v.to_le_bytes());
            if m != bytes {
                out.push(m);
            }
        }
    }
    if bytes.len() <= 256 {
        for i in 0..bytes.len() {
            for bit in 0..8 {
                let mut m = bytes.to_vec();
                m[i] ^= 1 << bit;
                out.push(m);
            }
        }
    }
    out
}

const FAMILIES: [&str; 4] = ["Sync", "Relay", "Filter", "Light"];

fn decode_family(ctx: &Ctx, report: &mut Report) {
    let cons = consensus(&WorldOpts::default());
    let probe = |family: &str, name: &str, data: Vec<u8>, via: &str, r: &mut Report| {
        r.evaluations += 1;
        let res = std::panic::catch_unwind(std::panic::AssertUnwindSafe(|| decode_and_walk(family, &data, &cons)));
        match res {
            Ok(true) => {
                r.count("decoded", 1);
                r.nontrivial.insert(fp(&(family, &data)));
                r.outcomes.insert(fp(&(family, true)));
            }
            Ok(false) => {
                r.count("rejected", 1);
                r.outcomes.insert(fp(&(family, false)));
            }
            Err(_) => r.violation(format!("decode-panic/{family}/{}", name.split('/').nth(1).unwrap_or(name).split('-').next().unwrap_or("")), format!("decoding / walking a {via} mutant of {name} as a {family} message panicked"), json!({"family": "decode", "reader": family, "seed": name, "via": via, "bytes": hex(&data)})),
        }
    };
    // all byte strings of length 0..=2 into every reader and into decompress
    let mut short: Vec<Vec<u8>> = vec![vec![]];
    for a in 0..=255u8 {
        short.push(vec![a]);
        for b in 0..=255u8 {
            short.push(vec![a, b]);
        }
    }
    for fam in FAMILIES {
        for s in &short {
            probe(fam, "short", s.clone(), "raw", report);
        }
    }
    for s in &short {
        report.evaluations += 1;
        let res = std::panic::catch_unwind(|| decompress(BytesMut::from(&s[..])));
        if res.is_err() {
            report.violation("decompress-panic", "decompress panicked on a short frame".to_string(), json!({"family": "decompress", "bytes": hex(s)}));
        }
    }
    // mutants of every zoo message, raw and compressed
    let msgs = zoo::messages();
    let rs: Vec<Report> = msgs
        .par_iter()
        .map(|(name, bytes)| {
            let mut r = Report::new();
            let own = name.split('/').next().unwrap();
            let cap = if ctx.tier.is_thorough() { usize::MAX } else { 700 };
            if bytes.len() <= cap {
                for m in mutants(bytes) {
                    // every mutant goes to its own reader; a sample of readers gets foreign payloads
                    probe(own, name, m, "raw", &mut r);
                }
                for fam in FAMILIES {
                    if fam != own {
                        probe(fam, name, bytes.clone(), "foreign-reader", &mut r);
                    }
                }
            }
            // the compressed frame of the message (padded above the compression threshold)
            let frame = compress(Bytes::from(bytes.clone()));
            let frame_mutants = if frame.len() <= cap { mutants(&frame) } else { (0..frame.len().min(64)).map(|i| { let mut m = frame.to_vec(); m[i] ^= 0x80; m }).collect() };
            for m in frame_mutants {
                r.evaluations += 1;
                let res = std::panic::catch_unwind(|| decompress(BytesMut::from(&m[..])));
                match res {
                    Err(_) => r.violation("decompress-panic", format!("decompress panicked on a mutated frame of {name}"), json!({"family": "decompress", "seed": name, "bytes": hex(&m)})),
                    Ok(Ok(out)) => {
                        if out.len() > (1 << 23) {
                            r.violation("decompress-oversize", format!("decompress returned {} bytes (> 8 MiB)", out.len()), json!({"family": "decompress", "seed": name, "bytes": hex(&m)}));
                        }
                        probe(own, name, out.to_vec(), "decompressed", &mut r);
                    }
                    Ok(Err(_)) => r.count("frames_rejected", 1),
                }
            }
            r
        })
        .collect();
    for r in rs {
        report.merge(r);
    }
    // a large compressible payload crosses the threshold and must round-trip
    for (name, bytes) in &msgs {
        let mut big = bytes.clone();
        big.extend(std::iter::repeat(0u8).take(2048));
        let frame = compress(Bytes::from(big.clone()));
        match decompress(BytesMut::from(&frame[..])) {
            Ok(out) if out.as_ref() == big.as_slice() => {}
            other => report.violation("compress-roundtrip", format!("compress/decompress of {name} + padding does not round-trip: {:?}", other.map(|o| o.len())), json!({"family": "compress", "seed": name})),
        }
        report.evaluations += 1;
    }
    report.sample(json!({"family": "decode", "seed_messages": msgs.iter().map(|m| format!("{} ({} B)", m.0, m.1.len())).collect::<Vec<_>>()}));
}

// ---------------------------------------------------------------------------------------
// (B) reconstruction

fn subsets<T: Clone>(items: &[T]) -> Vec<Vec<T>> {
    (0..(1u32 << items.len())).map(|mask| items.iter().enumerate().filter(|(i, _)| mask & (1 << i) != 0).map(|(_, t)| t.clone()).collect()).collect()
}

fn reconstruct_family(ctx: &Ctx, report: &mut Report) -> Result<(), String> {
    let cons = consensus(&WorldOpts::default());
    set_time(time_for_height(1));
    let dir = ctx.scratch.join("relay-node");
    let _ = std::fs::remove_dir_all(&dir);
    let node = Node::boot(&dir, &NodeOpts::new(cons.clone()).with_pool())?;
    node.wait_startup()?;
    let rx = node.relay_rx.lock().unwrap().take().ok_or("relay receiver")?;
    let sync_shared = Arc::new(SyncShared::new(node.shared.clone(), Default::default(), rx));
    let relayer = Relayer::new(node.chain().clone(), Arc::clone(&sync_shared));
    let cells = genesis_cells(&cons);
    let txs: Vec<TransactionView> = (0..3).map(|i| simple_tx(&cons, &cells[i..i + 1], 1, 1_000_000 + i as u64, 20 + i as u8)).collect();
    let foreign = simple_tx(&cons, &cells[4..5], 1, 9_000_000, 99);
    // the announced block: cellbase-shaped tx + 3 txs, 2 proposals, an extension (no uncles: an
    // unknown uncle hash would be reported missing, which is exercised separately below)
    let cellbase = cons.genesis_block().transactions()[0].clone();
    let block: BlockView = BlockBuilder::default()
        .number(1u64)
        .parent_hash(cons.genesis_hash())
        .timestamp(time_for_height(1))
        .compact_target(cons.genesis_block().compact_target())
        .transaction(cellbase.clone())
        .transactions(txs.clone())
        .proposal(packed::ProposalShortId::new([1; 10]))
        .proposal(packed::ProposalShortId::new([2; 10]))
        .extension(Some(Bytes::from(vec![5u8; 32]).pack()))
        .build();
    let announced_hash = block.hash();
    let handle = node.shared.async_handle().clone();
    let pool = node.shared.tx_pool_controller().clone();
    let mut in_pool: HashSet<usize> = HashSet::new();

    #[derive(Clone, Debug, serde::Serialize)]
    enum Tamper {
        None,
        ShortIdForeign(usize),
        ProposalsChanged,
        ExtensionChanged,
        ExtensionRemoved,
    }
    let tampers = [Tamper::None, Tamper::ShortIdForeign(0), Tamper::ShortIdForeign(2), Tamper::ProposalsChanged, Tamper::ExtensionChanged, Tamper::ExtensionRemoved];
    let prefilled_sets: Vec<Vec<usize>> = subsets(&[1usize, 2, 3]);
    let pool_sets: Vec<Vec<usize>> = subsets(&[0usize, 1, 2]);
    let supplied_sets: Vec<Vec<usize>> = subsets(&[0usize, 1, 2, 3]); // 3 = the foreign tx
    for pool_set in &pool_sets {
        // bring the pool to exactly this availability
        for i in 0..3 {
            let want = pool_set.contains(&i);
            if want && !in_pool.contains(&i) {
                node.submit_tx(&txs[i]).map_err(|e| format!("submit: {e}"))?;
                in_pool.insert(i);
            } else if !want && in_pool.contains(&i) {
                pool.remove_local_tx(txs[i].hash()).map_err(|e| e.to_string())?;
                in_pool.remove(&i);
            }
        }
        for prefilled in &prefilled_sets {
            for tamper in &tampers {
                let pre: HashSet<usize> = prefilled.iter().cloned().collect();
                let mut cb = packed::CompactBlock::build_from_block(&block, &pre);
                match tamper {
                    Tamper::None => {}
                    Tamper::ShortIdForeign(k) => {
                        let mut ids: Vec<packed::ProposalShortId> = cb.short_ids().into_iter().collect();
                        if *k >= ids.len() {
                            continue;
                        }
                        ids[*k] = foreign.proposal_short_id();
                        cb = cb.as_builder().short_ids(ids.pack()).build();
                    }
                    Tamper::ProposalsChanged => {
                        cb = cb.as_builder().proposals(vec![packed::ProposalShortId::new([9; 10])].pack()).build();
                    }
                    Tamper::ExtensionChanged => {
                        let v1 = packed::CompactBlockV1::new_builder()
                            .header(cb.header())
                            .short_ids(cb.short_ids())
                            .prefilled_transactions(cb.prefilled_transactions())
                            .uncles(cb.uncles())
                            .proposals(cb.proposals())
                            .extension(Bytes::from(vec![6u8; 40]).pack())
                            .build();
                        cb = v1.as_v0();
                    }
                    Tamper::ExtensionRemoved => {
                        cb = packed::CompactBlock::new_builder().header(cb.header()).short_ids(cb.short_ids()).prefilled_transactions(cb.prefilled_transactions()).uncles(cb.uncles()).proposals(cb.proposals()).build();
                    }
                }
                if !ckb_sync::verif::compact_block_verify(&cb).is_ok() {
                    report.count("compact_blocks_refused_by_verifier", 1);
                    continue;
                }
                for supplied in &supplied_sets {
                    if ctx.out_of_time() {
                        report.cap_hit = Some("reconstruction family: wall budget".into());
                        return Ok(());
                    }
                    let received: Vec<TransactionView> = supplied.iter().map(|i| if *i == 3 { foreign.clone() } else { txs[*i].clone() }).collect();
                    let active = sync_shared.active_chain();
                    let fut = relayer.reconstruct_block(&active, &cb, received, &[], &[]);
                    let res = std::panic::catch_unwind(std::panic::AssertUnwindSafe(|| handle.block_on(fut)));
                    report.evaluations += 1;
                    report.transitions += 1;
                    let label = json!({"family": "reconstruct", "prefilled": prefilled, "pool": pool_set, "supplied": supplied, "tamper": tamper});
                    // which block positions can be resolved: prefilled, or short id known from supplied/pool
                    let short_ids: Vec<packed::ProposalShortId> = cb.short_ids().into_iter().collect();
                    let positions: Vec<usize> = (1..=3).filter(|p| !pre.contains(p)).collect();
                    let mut want_missing = vec![];
                    for (k, pos) in positions.iter().enumerate() {
                        let id = &short_ids[k];
                        let from_supplied = supplied.iter().any(|i| (if *i == 3 { foreign.proposal_short_id() } else { txs[*i].proposal_short_id() }) == *id);
                        let from_pool = (0..3).any(|i| pool_set.contains(&i) && txs[i].proposal_short_id() == *id);
                        if !from_supplied && !from_pool {
                            want_missing.push(*pos);
                        }
                    }
                    use ckb_sync::ReconstructionResult as RR;
                    match res {
                        Err(_) => report.violation("reconstruct/panic", "reconstruct_block panicked on a verified compact block".to_string(), label),
                        Ok(RR::Block(b)) => {
                            report.outcomes.insert(1);
                            if b.hash() != announced_hash || b.data().as_slice() != block.data().as_slice() {
                                report.violation(
                                    format!("reconstruct/different-block/{}", serde_json::to_value(tamper).unwrap().as_str().map(|s| s.to_string()).unwrap_or_else(|| "short-id".into())),
                                    format!("reconstruction returned a block with hash {} for a compact block announcing {} (header roots were recomputed from peer-supplied content)", b.hash(), announced_hash),
                                    label,
                                );
                            } else {
                                report.nontrivial.insert(fp(&(prefilled, pool_set, supplied)));
                            }
                        }
                        Ok(RR::Missing(txm, um)) => {
                            report.outcomes.insert(2);
                            if txm != want_missing || !um.is_empty() {
                                report.violation("reconstruct/imprecise-missing", format!("missing report {txm:?}/{um:?}, unresolved positions are {want_missing:?}"), label);
                            }
                        }
                        Ok(RR::Collided) => {
                            report.outcomes.insert(3);
                        }
                        Ok(RR::Error(_)) => {
                            report.outcomes.insert(4);
                        }
                    }
                    report.states.insert(fp(&(prefilled, pool_set, supplied, format!("{tamper:?}"))));
                }
            }
        }
    }
    // (B2) arbitrary compact-block structure: every prefilled index sequence of length 0..=3 over
    // {0,1,2,3,4,7} x short-id lists (0..3 ids, one list with a duplicate), in production order
    // (CompactBlockVerifier, then reconstruct_block) with nothing / everything supplied.
    {
        let all_txs: Vec<TransactionView> = block.transactions();
        let ids: Vec<packed::ProposalShortId> = txs.iter().map(|t| t.proposal_short_id()).collect();
        let id_lists: Vec<Vec<packed::ProposalShortId>> = vec![vec![], vec![ids[0].clone()], vec![ids[0].clone(), ids[1].clone()], ids.clone(), vec![ids[0].clone(), ids[0].clone()], vec![ids[1].clone(), ids[2].clone()], vec![ids[2].clone()]];
        let dom = [0u32, 1, 2, 3, 4, 7];
        let mut seqs: Vec<Vec<u32>> = vec![vec![]];
        for len in 1..=3usize {
            let mut cur: Vec<Vec<u32>> = vec![vec![]];
            for _ in 0..len {
                cur = cur.into_iter().flat_map(|p| dom.iter().map(move |d| { let mut q = p.clone(); q.push(*d); q })).collect();
            }
            seqs.extend(cur);
        }
        let base = packed::CompactBlock::build_from_block(&block, &HashSet::new());
        for seq in &seqs {
            for (li, id_list) in id_lists.iter().enumerate() {
                let prefilled: Vec<packed::IndexTransaction> = seq
                    .iter()
                    .map(|i| packed::IndexTransaction::new_builder().index(*i).transaction(all_txs[(*i as usize).min(3)].data()).build())
                    .collect();
                let cb = base.clone().as_builder().prefilled_transactions(prefilled.pack()).short_ids(id_list.clone().pack()).build();
                let label = json!({"family": "structure", "prefilled_indexes": seq, "short_id_list": li});
                let verdict = std::panic::catch_unwind(|| ckb_sync::verif::compact_block_verify(&cb).is_ok());
                report.evaluations += 1;
                let accepted = match verdict {
                    Err(_) => {
                        report.violation("structure/verifier-panic", format!("CompactBlockVerifier panicked on prefilled indexes {seq:?}"), label);
                        continue;
                    }
                    Ok(a) => a,
                };
                if !accepted {
                    report.count("structure_refused_by_verifier", 1);
                    continue;
                }
                report.count("structure_accepted_by_verifier", 1);
                for supplied_all in [false, true] {
                    let received: Vec<TransactionView> = if supplied_all { txs.clone() } else { vec![] };
                    let active = sync_shared.active_chain();
                    let fut = relayer.reconstruct_block(&active, &cb, received, &[], &[]);
                    let res = std::panic::catch_unwind(std::panic::AssertUnwindSafe(|| handle.block_on(fut)));
                    report.evaluations += 1;
                    report.states.insert(fp(&("structure", seq, li, supplied_all)));
                    use ckb_sync::ReconstructionResult as RR;
                    let label = json!({"family": "structure", "prefilled_indexes": seq, "short_id_list": li, "supplied_all": supplied_all});
                    match res {
                        Err(_) => report.violation("structure/panic", format!("reconstruct_block panicked on a compact block accepted by CompactBlockVerifier: prefilled indexes {seq:?}, {} short ids", id_list.len()), label),
                        Ok(RR::Block(b)) => {
                            report.outcomes.insert(5);
                            if b.hash() != announced_hash || b.data().as_slice() != block.data().as_slice() {
                                report.violation("structure/different-block", format!("prefilled indexes {seq:?}: reconstruction returned block {} for a compact block announcing {}", b.hash(), announced_hash), label);
                            } else {
                                report.nontrivial.insert(fp(&("structure", seq, li)));
                            }
                        }
                        Ok(RR::Missing(txm, _)) => {
                            report.outcomes.insert(6);
                            if txm.iter().any(|i| *i >= cb.txs_len()) {
                                report.violation("structure/imprecise-missing", format!("missing report {txm:?} names positions outside the block of {} txs", cb.txs_len()), label);
                            }
                        }
                        Ok(RR::Collided) => {
                            report.outcomes.insert(7);
                        }
                        Ok(RR::Error(_)) => {
                            report.outcomes.insert(8);
                        }
                    }
                }
            }
        }
    }
    // (B3) uncles: a block with two uncles the node does not know; for every set of uncle
    // indexes the node may have asked for and every sequence (length 0..=3) of uncles a peer may
    // answer with, in production order: BlockUnclesVerifier, then reconstruct_block.
    {
        let mk_uncle = |n: u8| -> ckb_types::core::UncleBlockView {
            BlockBuilder::default().number(1u64).parent_hash(cons.genesis_hash()).timestamp(time_for_height(1) + n as u64).compact_target(cons.genesis_block().compact_target()).nonce(n as u128).build().as_uncle()
        };
        let u: Vec<ckb_types::core::UncleBlockView> = vec![mk_uncle(1), mk_uncle(2), mk_uncle(3)]; // u[2] is foreign
        let ublock: BlockView = block.as_advanced_builder().number(2u64).uncle(u[0].clone()).uncle(u[1].clone()).build();
        let all: HashSet<usize> = (0..4).collect();
        let cb = packed::CompactBlock::build_from_block(&ublock, &all);
        let index_sets: Vec<Vec<u32>> = subsets(&[0u32, 1]);
        let mut answers: Vec<Vec<usize>> = vec![vec![]];
        for len in 1..=3usize {
            let mut cur: Vec<Vec<usize>> = vec![vec![]];
            for _ in 0..len {
                cur = cur.into_iter().flat_map(|p| (0..3usize).map(move |d| { let mut q = p.clone(); q.push(d); q })).collect();
            }
            answers.extend(cur);
        }
        for idx in &index_sets {
            for ans in &answers {
                let supplied: Vec<ckb_types::core::UncleBlockView> = ans.iter().map(|i| u[*i].clone()).collect();
                let label = json!({"family": "uncles", "asked_indexes": idx, "answered": ans});
                report.evaluations += 1;
                let verdict = std::panic::catch_unwind(|| ckb_sync::verif::block_uncles_verify(&cb, idx, &supplied).is_ok());
                let accepted = match verdict {
                    Err(_) => {
                        report.violation("uncles/verifier-panic", format!("BlockUnclesVerifier panicked: asked {idx:?}, answered {ans:?}"), label);
                        continue;
                    }
                    Ok(a) => a,
                };
                if !accepted {
                    report.count("uncle_answers_refused_by_verifier", 1);
                    continue;
                }
                report.count("uncle_answers_accepted_by_verifier", 1);
                let active = sync_shared.active_chain();
                let fut = relayer.reconstruct_block(&active, &cb, vec![], idx, &supplied);
                let res = std::panic::catch_unwind(std::panic::AssertUnwindSafe(|| handle.block_on(fut)));
                report.states.insert(fp(&("uncles", idx, ans)));
                use ckb_sync::ReconstructionResult as RR;
                match res {
                    Err(_) => report.violation("uncles/panic", format!("reconstruct_block panicked on an uncle answer accepted by BlockUnclesVerifier: asked for uncle indexes {idx:?}, peer answered with uncles {ans:?}"), label),
                    Ok(RR::Block(b)) => {
                        report.outcomes.insert(9);
                        if b.hash() != ublock.hash() || b.data().as_slice() != ublock.data().as_slice() {
                            report.violation("uncles/different-block", format!("asked {idx:?}, answered {ans:?}: reconstruction returned block {} for a compact block announcing {}", b.hash(), ublock.hash()), label);
                        } else {
                            report.nontrivial.insert(fp(&("uncles", idx, ans)));
                        }
                    }
                    Ok(RR::Missing(txm, um)) => {
                        report.outcomes.insert(10);
                        let want: Vec<usize> = (0..2usize).filter(|i| !idx.contains(&(*i as u32))).collect();
                        if !txm.is_empty() || um != want {
                            report.violation("uncles/imprecise-missing", format!("asked {idx:?}, answered {ans:?}: missing report {txm:?}/{um:?}, the locally unknown uncles not asked for are {want:?}"), label);
                        }
                    }
                    Ok(RR::Collided) => {
                        report.outcomes.insert(11);
                    }
                    Ok(RR::Error(_)) => {
                        report.outcomes.insert(12);
                    }
                }
            }
        }
    }
    // (B4) uncles partly known locally: two real sibling blocks of height 1 are stored by the node
    // (one on the main chain, one as a side block); the announced block lists 2..3 uncles drawn from
    // {L1, L2 (local), U1, U2 (unknown)} in every order.  Production flow: the first reconstruction
    // reports the missing uncle indexes, the peer answers (every sequence of length 0..=2 over
    // {U1, U2, a foreign uncle}), BlockUnclesVerifier, second reconstruction.
    {
        let snap = node.shared.snapshot();
        let l1 = crate::forge::assemble(&snap, &crate::forge::BlockSpec { miner: 1, ..Default::default() })?;
        let l2 = crate::forge::assemble(&snap, &crate::forge::BlockSpec { miner: 2, ts_offset: 1, ..Default::default() })?;
        node.process(&l1).map_err(|e| format!("l1: {e}"))?;
        node.process(&l2).map_err(|e| format!("l2: {e}"))?;
        let fake = |n: u8| -> ckb_types::core::UncleBlockView {
            BlockBuilder::default().number(1u64).parent_hash(cons.genesis_hash()).timestamp(time_for_height(1) + 50 + n as u64).compact_target(cons.genesis_block().compact_target()).nonce(n as u128).build().as_uncle()
        };
        // 0 = L1, 1 = L2, 2 = U1, 3 = U2, 4 = foreign
        let pool_u: Vec<ckb_types::core::UncleBlockView> = vec![l1.as_uncle(), l2.as_uncle(), fake(1), fake(2), fake(3)];
        let mut lists: Vec<Vec<usize>> = vec![];
        for a in 0..4usize {
            for b in 0..4usize {
                if a == b {
                    continue;
                }
                lists.push(vec![a, b]);
                for c in 0..4usize {
                    if c != a && c != b {
                        lists.push(vec![a, b, c]);
                    }
                }
            }
        }
        let mut answers: Vec<Vec<usize>> = vec![vec![]];
        for x in 2..5usize {
            answers.push(vec![x]);
            for y in 2..5usize {
                answers.push(vec![x, y]);
            }
        }
        let all: HashSet<usize> = (0..4).collect();
        for list in &lists {
            let mut b = block.as_advanced_builder().number(2u64);
            for i in list {
                b = b.uncle(pool_u[*i].clone());
            }
            let ublock: BlockView = b.build();
            let cb = packed::CompactBlock::build_from_block(&ublock, &all);
            let active = sync_shared.active_chain();
            let first = std::panic::catch_unwind(std::panic::AssertUnwindSafe(|| handle.block_on(relayer.reconstruct_block(&active, &cb, vec![], &[], &[]))));
            use ckb_sync::ReconstructionResult as RR;
            let label0 = json!({"family": "uncles-mixed", "uncle_list": list});
            report.evaluations += 1;
            let want_missing: Vec<usize> = list.iter().enumerate().filter(|(_, u)| **u >= 2).map(|(i, _)| i).collect();
            let asked: Vec<u32> = match first {
                Err(_) => {
                    report.violation("uncles-mixed/panic", format!("reconstruct_block panicked on uncle list {list:?} before any answer"), label0);
                    continue;
                }
                Ok(RR::Missing(txm, um)) => {
                    if !txm.is_empty() || um != want_missing {
                        report.violation("uncles-mixed/imprecise-missing", format!("uncle list {list:?} (0, 1 are stored locally): missing report {txm:?}/{um:?}, unknown uncles are at {want_missing:?}"), label0);
                    }
                    um.iter().map(|i| *i as u32).collect()
                }
                Ok(RR::Block(b)) => {
                    if !want_missing.is_empty() || b.hash() != ublock.hash() {
                        report.violation("uncles-mixed/different-block", format!("uncle list {list:?}: a block was returned although uncles {want_missing:?} are unknown (or it is another block)"), label0);
                    }
                    continue;
                }
                Ok(_) => continue,
            };
            for ans in &answers {
                let supplied: Vec<ckb_types::core::UncleBlockView> = ans.iter().map(|i| pool_u[*i].clone()).collect();
                let label = json!({"family": "uncles-mixed", "uncle_list": list, "asked_indexes": asked, "answered": ans});
                report.evaluations += 1;
                let ok = std::panic::catch_unwind(|| ckb_sync::verif::block_uncles_verify(&cb, &asked, &supplied).is_ok());
                match ok {
                    Err(_) => {
                        report.violation("uncles-mixed/verifier-panic", format!("BlockUnclesVerifier panicked: list {list:?}, asked {asked:?}, answered {ans:?}"), label);
                        continue;
                    }
                    Ok(false) => {
                        report.count("uncle_answers_refused_by_verifier", 1);
                        continue;
                    }
                    Ok(true) => {}
                }
                let active = sync_shared.active_chain();
                let res = std::panic::catch_unwind(std::panic::AssertUnwindSafe(|| handle.block_on(relayer.reconstruct_block(&active, &cb, vec![], &asked, &supplied))));
                report.states.insert(fp(&("uncles-mixed", list, ans)));
                match res {
                    Err(_) => report.violation("uncles-mixed/panic", format!("reconstruct_block panicked: uncle list {list:?} (0, 1 stored locally), asked for {asked:?}, the peer answered {ans:?} (accepted by BlockUnclesVerifier)"), label),
                    Ok(RR::Block(b)) => {
                        report.outcomes.insert(13);
                        if b.hash() != ublock.hash() || b.data().as_slice() != ublock.data().as_slice() {
                            report.violation("uncles-mixed/different-block", format!("list {list:?}, asked {asked:?}, answered {ans:?}: reconstruction returned block {} for a compact block announcing {}", b.hash(), ublock.hash()), label);
                        } else {
                            report.nontrivial.insert(fp(&("uncles-mixed", list, ans)));
                        }
                    }
                    Ok(RR::Missing(_, _)) => {
                        report.outcomes.insert(14);
                    }
                    Ok(RR::Collided) => {
                        report.outcomes.insert(15);
                    }
                    Ok(RR::Error(_)) => {
                        report.outcomes.insert(16);
                    }
                }
            }
        }
    }
    report.traces += 1;
    // the relayer holds a ChainController: the chain service only stops once every clone is gone
    drop(relayer);
    drop(sync_shared);
    report.sample(json!({"family": "reconstruct", "block_txs": 4, "prefilled_sets": prefilled_sets.len(), "pool_sets": pool_sets.len(), "supplied_sets": supplied_sets.len(), "tampers": tampers.len()}));
    node.shutdown();
    Ok(())
}

pub fn meta(tier: Tier) -> Meta {
    Meta {
        id: "C16",
        level: "exploration",
        rule: "decode: all 65 793 byte strings of length 0..=2 into each of the four protocol readers and into decompress; for each of 27 seed messages (one per union arm, small and large) every truncation, every single-byte substitution from {00,01,7f,80,ff,b-1,b+1}, every aligned 4-byte word replaced by {0,1,len-1,len,len+1,7fffffff,ffffffff}, every bit flip (seeds <= 256 B), raw and on the compressed frame; each decoded value is walked (all accessors, view conversion, hashes, Display, BlockVerifier, NonContextualTransactionVerifier, CompactBlockVerifier, BlockTransactions/UnclesVerifier) under catch_unwind. reconstruct: real Relayer::reconstruct_block on a real pool for every prefilled subset containing the cellbase (8) x pool availability subset (8) x peer-supplied subset incl. a foreign tx (16) x tampering {none, short id replaced (2 positions), proposals changed, extension changed/removed}; structure: all prefilled index sequences (len 0..3 over {0,1,2,3,4,7}) x 7 short-id lists through CompactBlockVerifier then reconstruct_block; uncles: asked index subsets of {0,1} x answer sequences (len 0..3 over {U0,U1,foreign}) through BlockUnclesVerifier then reconstruct_block; uncles-mixed: every list of 2..3 uncles over {two locally stored real blocks, two unknown}, the missing indexes the first reconstruction reports, every answer of length 0..2 over {the unknown ones, a foreign one}, BlockUnclesVerifier, second reconstruction. non-trivial = a mutant that decodes / a reconstruction that returns the block.",
        assumptions: &["only compact blocks accepted by CompactBlockVerifier are reconstructed (production order)", "byte strings further than one mutation from a seed or longer than 2 bytes are not enumerated"],
        bounds: json!({"seed_size_cap_quick": 700, "tier": tier.as_str()}),
    }
}

pub fn run(ctx: &Ctx) -> Report {
    let mut report = Report::new();
    if std::env::var("VERIF_PANICS").is_err() {
        std::panic::set_hook(Box::new(|_| {}));
    }
    if ctx.replay.is_some() {
        report.outcomes.insert(0);
    }
    let v: Option<Value> = ctx.replay.as_ref().map(|p| load_replay_case(p));
    let fam = v.as_ref().and_then(|v| v["family"].as_str().map(|s| s.to_string()));
    if fam.is_none() || fam.as_deref() == Some("decode") || fam.as_deref() == Some("decompress") {
        decode_family(ctx, &mut report);
    }
    if fam.is_none() || fam.as_deref() == Some("reconstruct") {
        if let Err(e) = reconstruct_family(ctx, &mut report) {
            report.machinery_errors.push(format!("reconstruction family: {e}"));
        }
    }
    let _ = std::panic::take_hook();
    report.traces += report.evaluations;
    report.transitions += report.evaluations;
    report.states.insert(1);
    report
}
