//! C17 — sync bookkeeping structures behave like their simple mathematical models.
//!
//! Four explicit-state searches on the real structures (state = operation history, replayed on a
//! fresh object; states deduplicated by the structure's full observable / dumped state):
//!   orphan   — every labelled forest over two absent roots, all op sequences to a fixpoint
//!   inflight — 3 peers x 4 blocks, faked clock, step-wise refinement check on the dumped state
//!   headermap— 4 keys, real sled backend, limit 2 items, spill as an operation, every sequence
//!   ancestor — every chain length and (from,to) pair, forks at every point, with/without the
//!              main-chain shortcut; locator on a real chain from every start
use crate::core::*;
use crate::world::*;
use ckb_chain::{LonelyBlockHash, OrphanBlockPool};
use ckb_shared::{HeaderMap, types::HeaderIndexView};
use ckb_sync::InflightBlocks;
use ckb_types::{BlockNumberAndHash, U256, core::EpochNumberWithFraction, packed::Byte32, prelude::*};
use serde::{Deserialize, Serialize};
use serde_json::{Value, json};
use std::collections::{BTreeMap, BTreeSet, HashMap, HashSet};
use std::sync::Arc;
use std::sync::atomic::AtomicBool;

fn h(tag: u8, i: u64) -> Byte32 {
    let mut b = [tag; 32];
    b[..8].copy_from_slice(&i.to_le_bytes());
    Byte32::from_slice(&b).unwrap()
}

// =======================================================================================
// orphan pool

#[derive(Clone, Copy, Debug, Serialize, Deserialize, PartialEq, Eq, Hash)]
pub enum OOp {
    Insert(usize),
    /// remove_blocks_by_parent of node id (0,1 = absent roots, 2.. = blocks)
    Remove(usize),
    Clean(u64),
}

/// parent vector: parent[i] in 0..i+2 (0,1 = roots, k+2 = block k)
fn forests(n: usize) -> Vec<Vec<usize>> {
    let mut out = vec![vec![]];
    for i in 0..n {
        let mut next = vec![];
        for p in &out {
            for parent in 0..(i + 2) {
                let mut q = p.clone();
                q.push(parent);
                next.push(q);
            }
        }
        out = next;
    }
    out
}

fn node_hash(id: usize) -> Byte32 {
    h(0xB0, id as u64)
}

/// children of one parent share an epoch (need_clean looks at one arbitrary child)
fn epoch_of_children(parent: usize) -> u64 {
    (parent as u64 % 3) * 10
}

fn lonely(id: usize, parent: usize) -> LonelyBlockHash {
    LonelyBlockHash {
        block_number_and_hash: BlockNumberAndHash { number: id as u64 + 10, hash: node_hash(id) },
        parent_hash: node_hash(parent),
        epoch_number: epoch_of_children(parent),
        switch: None,
        verify_callback: None,
    }
}

struct OrphanRef {
    parent: Vec<usize>,
    stored: BTreeSet<usize>, // node ids (>= 2)
}

impl OrphanRef {
    fn leaders(&self) -> BTreeSet<usize> {
        self.stored.iter().map(|b| self.parent[*b - 2]).filter(|p| !self.stored.contains(p)).collect()
    }
    fn descendants(&self, root: usize) -> BTreeSet<usize> {
        let mut out = BTreeSet::new();
        let mut frontier = vec![root];
        while let Some(x) = frontier.pop() {
            for b in self.stored.iter() {
                if self.parent[*b - 2] == x && out.insert(*b) {
                    frontier.push(*b);
                }
            }
        }
        out
    }
}

/// Replays `hist`; returns (fingerprint, violation)
fn orphan_replay(parent: &[usize], hist: &[OOp]) -> (u64, Option<(String, String)>) {
    let pool = OrphanBlockPool::with_capacity(8);
    let mut r = OrphanRef { parent: parent.to_vec(), stored: BTreeSet::new() };
    let id_of: HashMap<Byte32, usize> = (0..parent.len() + 2).map(|i| (node_hash(i), i)).collect();
    // how often a block that is still held has been inserted (capped at 2): the pool's public
    // interface cannot show whether a repeated insert left a second copy behind, so histories that
    // differ in this are not merged (the same block arrives again whenever a peer re-sends it)
    let mut times: BTreeMap<usize, u8> = BTreeMap::new();
    for (step, op) in hist.iter().enumerate() {
        match *op {
            OOp::Insert(b) => {
                pool.insert(lonely(b, parent[b - 2]));
                r.stored.insert(b);
                let t = times.entry(b).or_insert(0);
                *t = (*t + 1).min(2);
            }
            OOp::Remove(x) => {
                let was_leader = r.leaders().contains(&x);
                let want = r.descendants(x);
                let got_vec: Vec<usize> = pool.remove_blocks_by_parent(&node_hash(x)).iter().map(|l| id_of[&l.hash()]).collect();
                let got: BTreeSet<usize> = got_vec.iter().cloned().collect();
                if got.len() != got_vec.len() {
                    return (0, Some(("orphan/release-duplicates".into(), format!("step {step} {op:?}: a block was returned twice: {got_vec:?}"))));
                }
                if was_leader || want.is_empty() {
                    if got != want {
                        return (0, Some(("orphan/release-set".into(), format!("step {step} {op:?}: released {got:?}, stored descendants are {want:?}"))));
                    }
                } else {
                    // releasing below a parent that is itself held: not a case the pool is used for;
                    // whatever is returned must be a downward-closed part of the descendants
                    if !got.is_subset(&want) {
                        return (0, Some(("orphan/release-foreign".into(), format!("step {step} {op:?}: released {got:?} not within descendants {want:?}"))));
                    }
                }
                for b in &got {
                    r.stored.remove(b);
                }
            }
            OOp::Clean(e) => {
                let mut want = BTreeSet::new();
                for l in r.leaders() {
                    if epoch_of_children(l) + 6 < e {
                        want.extend(r.descendants(l));
                    }
                }
                let got: BTreeSet<usize> = pool.clean_expired_blocks(e).iter().map(|l| id_of[&l.hash()]).collect();
                if got != want {
                    return (0, Some(("orphan/expiry-set".into(), format!("step {step} {op:?}: expired {got:?}, expected {want:?}"))));
                }
                for b in &got {
                    r.stored.remove(b);
                }
            }
        }
        if pool.len() != r.stored.len() {
            return (0, Some(("orphan/len".into(), format!("step {step} {op:?}: len() = {}, {} blocks are held", pool.len(), r.stored.len()))));
        }
        let leaders: BTreeSet<usize> = pool.clone_leaders().iter().map(|x| id_of[x]).collect();
        if leaders != r.leaders() {
            return (0, Some(("orphan/leaders".into(), format!("step {step} {op:?}: leader set {leaders:?}, absent parents of held blocks are {:?}", r.leaders()))));
        }
    }
    let leaders: BTreeSet<usize> = pool.clone_leaders().iter().map(|x| id_of[x]).collect();
    times.retain(|b, _| r.stored.contains(b));
    (fp(&(&r.stored, leaders, pool.len(), &times)), None)
}

fn orphan_family(ctx: &Ctx, report: &mut Report, only: Option<(Vec<usize>, Vec<OOp>)>) {
    if let Some((parent, hist)) = only {
        let (_, v) = orphan_replay(&parent, &hist);
        report.evaluations += 1;
        if let Some((k, m)) = v {
            report.violation(k, m, json!({"family": "orphan", "parent": parent, "history": hist}));
        }
        return;
    }
    let n = 5;
    let all = forests(n);
    report.max_counter("max_orphan_forests", all.len() as u64);
    for (fi, parent) in all.iter().enumerate() {
        if ctx.out_of_time() {
            report.cap_hit = Some(format!("orphan family: wall budget at forest {fi}"));
            return;
        }
        let mut ops: Vec<OOp> = (2..n + 2).map(OOp::Insert).collect();
        ops.extend((0..n + 2).map(OOp::Remove));
        ops.extend([0u64, 7, 17, 100].map(OOp::Clean));
        let mut seen: HashSet<u64> = HashSet::new();
        let mut frontier: Vec<Vec<OOp>> = vec![vec![]];
        seen.insert(orphan_replay(parent, &[]).0);
        let mut depth = 0;
        while !frontier.is_empty() {
            depth += 1;
            let mut next = vec![];
            for hst in &frontier {
                for op in &ops {
                    let mut nh = hst.clone();
                    nh.push(*op);
                    let (f, v) = orphan_replay(parent, &nh);
                    report.transitions += 1;
                    if let Some((k, m)) = v {
                        report.violation(k, m, json!({"family": "orphan", "parent": parent, "history": nh}));
                        continue;
                    }
                    if seen.insert(f) {
                        report.states.insert(fp(&(fi, f)));
                        next.push(nh);
                    }
                }
            }
            frontier = next;
            if depth > 12 {
                report.cap_hit = Some("orphan family: depth 12 without fixpoint".into());
                break;
            }
        }
        report.max_counter("max_orphan_fixpoint_depth", depth);
        report.evaluations += 1;
        report.traces += seen.len() as u64;
        report.outcomes.insert(fp(&seen.len()));
        if parent.iter().any(|p| *p >= 2) {
            report.nontrivial.insert(fp(parent));
        }
        if fi % 97 == 0 {
            report.sample(json!({"family": "orphan", "forest_parent_vector": parent, "reachable_states": seen.len(), "fixpoint_depth": depth}));
        }
    }
}

// =======================================================================================
// in-flight table

#[derive(Clone, Copy, Debug, Serialize, Deserialize, PartialEq, Eq, Hash)]
pub enum IOp {
    Insert(u8, u8),
    RemoveBlock(u8),
    RemovePeer(u8),
    Prune,
    MarkSlow,
    Advance(u64),
}

fn iblock(i: u8) -> BlockNumberAndHash {
    let number = match i {
        0 => 1,
        1 | 2 => 2,
        3 => 30,
        // blocks of the second search (other peers' requests, far outside the prune window)
        _ => 40 + i as u64,
    };
    BlockNumberAndHash { number, hash: h(0xC0, i as u64) }
}

type IDump = (BTreeMap<usize, BTreeSet<(u64, Vec<u8>)>>, BTreeMap<(u64, Vec<u8>), (usize, u64)>, BTreeMap<(u64, Vec<u8>), u64>, u64);

fn idump(t: &InflightBlocks) -> IDump {
    let (sets, states, trace, restart) = t.verif_dump();
    let key = |b: &BlockNumberAndHash| (b.number, b.hash.as_slice().to_vec());
    (
        sets.into_iter().map(|(p, v)| (p.value(), v.iter().map(key).collect())).collect(),
        states.into_iter().map(|(b, p, ts)| (key(&b), (p.value(), ts))).collect(),
        trace.into_iter().map(|(b, ts)| (key(&b), ts)).collect(),
        restart,
    )
}

const TIMEOUT: u64 = 30_000;

fn inflight_replay(hist: &[IOp]) -> (u64, Option<(String, String)>, bool) {
    let mut now: u64 = 1_000_000;
    set_time(now);
    let mut t = InflightBlocks::default();
    let mut dangling_seen = false;
    let key = |b: &BlockNumberAndHash| (b.number, b.hash.as_slice().to_vec());
    for (step, op) in hist.iter().enumerate() {
        let pre = idump(&t);
        let fail = |k: &str, m: String| (0u64, Some((format!("inflight/{k}"), format!("step {step} {op:?}: {m}"))), false);
        match *op {
            IOp::Insert(p, b) => {
                let blk = iblock(b);
                let ret = t.insert((p as usize).into(), blk.clone());
                let post = idump(&t);
                if pre.1.contains_key(&key(&blk)) {
                    if ret || post.0 != pre.0 || post.1 != pre.1 {
                        return fail("double-assignment", format!("block already in flight from peer {:?} was accepted again (ret={ret})", pre.1[&key(&blk)].0));
                    }
                } else {
                    let mut want_states = pre.1.clone();
                    want_states.insert(key(&blk), (p as usize, now));
                    let mut want_sets = pre.0.clone();
                    want_sets.entry(p as usize).or_default().insert(key(&blk));
                    if !ret || post.1 != want_states || post.0 != want_sets {
                        return fail("insert", format!("ret={ret}; states {:?} sets {:?}; expected states {:?} sets {:?}", post.1, post.0, want_states, want_sets));
                    }
                }
            }
            IOp::RemoveBlock(b) => {
                let blk = iblock(b);
                let ret = t.remove_by_block(blk.clone());
                let post = idump(&t);
                let mut want_states = pre.1.clone();
                let mut want_sets = pre.0.clone();
                let had = want_states.remove(&key(&blk));
                if let Some((peer, _)) = had {
                    if let Some(s) = want_sets.get_mut(&peer) {
                        s.remove(&key(&blk));
                    }
                }
                if ret != had.is_some() || post.1 != want_states || post.0 != want_sets {
                    return fail("remove-by-block", format!("ret={ret}; states {:?} sets {:?}; expected exactly that block gone: states {:?} sets {:?}", post.1, post.0, want_states, want_sets));
                }
            }
            IOp::RemovePeer(p) => {
                let ret = t.remove_by_peer((p as usize).into());
                let post = idump(&t);
                let gone = pre.0.get(&(p as usize)).cloned().unwrap_or_default();
                let mut want_states = pre.1.clone();
                for b in &gone {
                    want_states.remove(b);
                }
                let mut want_sets = pre.0.clone();
                want_sets.remove(&(p as usize));
                if ret != gone.len() || post.1 != want_states || post.0 != want_sets {
                    return fail("remove-by-peer", format!("ret={ret}; states {:?} sets {:?}; expected exactly the peer's entries gone: states {:?} sets {:?}", post.1, post.0, want_states, want_sets));
                }
            }
            IOp::Prune => {
                let tip = 0u64;
                let low_time = t.division_point().2;
                let _ = t.prune(tip);
                let post = idump(&t);
                let mut want_gone: BTreeSet<(u64, Vec<u8>)> = BTreeSet::new();
                for (b, (_, ts)) in &pre.1 {
                    if b.0 <= tip + 20 && ts + TIMEOUT < now {
                        want_gone.insert(b.clone());
                    }
                }
                // slow-block tracing (entries that survive the first phase)
                for (b, marked) in &pre.2 {
                    if !want_gone.contains(b) && pre.1.contains_key(b) && now > low_time + marked {
                        want_gone.insert(b.clone());
                    }
                }
                let gone: BTreeSet<_> = pre.1.keys().filter(|b| !post.1.contains_key(*b)).cloned().collect();
                if gone != want_gone {
                    return fail("prune", format!("released {gone:?}, timed-out entries in the window are {want_gone:?} (now={now}, low_time={low_time})"));
                }
                if post.1.keys().any(|b| !pre.1.contains_key(b)) {
                    return fail("prune", "prune created entries".into());
                }
                for (p, set) in &post.0 {
                    let want: BTreeSet<_> = pre.0.get(p).cloned().unwrap_or_default().difference(&want_gone).cloned().collect();
                    if set != &want {
                        return fail("prune", format!("peer {p} set {set:?}, expected {want:?}"));
                    }
                }
            }
            IOp::MarkSlow => {
                t.mark_slow_block(0);
                let post = idump(&t);
                if post.0 != pre.0 || post.1 != pre.1 {
                    return fail("mark-slow", "mark_slow_block changed assignments".into());
                }
            }
            IOp::Advance(d) => {
                now += d;
                set_time(now);
            }
        }
        // global invariants of the statement
        let post = idump(&t);
        let mut seen_blocks: HashMap<(u64, Vec<u8>), usize> = HashMap::new();
        for (p, set) in &post.0 {
            for b in set {
                if let Some(other) = seen_blocks.insert(b.clone(), *p) {
                    return fail("two-peers", format!("block {:?} is listed for peers {other} and {p}", b.0));
                }
                match post.1.get(b) {
                    Some((sp, _)) if sp == p => {}
                    other => return fail("listed-not-in-flight", format!("block listed for peer {p} has in-flight record {other:?}")),
                }
            }
        }
        // a slow-block trace record describes one request: once that request is released (block
        // arrived, peer left, timed out) the record must go with it, otherwise a later request for the
        // same block inherits the old mark and is released before its own time-out
        for b in post.2.keys() {
            if !post.1.contains_key(b) {
                return fail("stale-trace-record", format!("block {:?} has a slow-block trace record but no request in flight", b.0));
            }
        }
        for (b, (p, _)) in &post.1 {
            if !post.0.get(p).map(|s| s.contains(b)).unwrap_or(false) {
                dangling_seen = true; // reported, not judged (the statement does not demand the converse)
            }
        }
    }
    let d = idump(&t);
    // clock enters the fingerprint relative to the entries (what the future can observe)
    let rel: Vec<_> = d.1.iter().map(|(b, (p, ts))| (b.clone(), *p, now - ts)).collect();
    let rel_trace: Vec<_> = d.2.iter().map(|(b, ts)| (b.clone(), now - ts)).collect();
    (fp(&(&d.0, rel, rel_trace, d.3, t.division_point())), None, dangling_seen)
}

fn inflight_family(ctx: &Ctx, report: &mut Report, only: Option<Vec<IOp>>) {
    if let Some(hist) = only {
        let (_, v, _) = inflight_replay(&hist);
        report.evaluations += 1;
        if let Some((k, m)) = v {
            report.violation(k, m, json!({"family": "inflight", "history": hist}));
        }
        return;
    }
    // first search: 3 peers x 4 blocks from the empty table.  Second search: the penalty mechanism
    // only works with more download peers than the protected number (4), and a peer's scheduler is
    // evicted after three time-outs in one prune round: 5 peers, peer 0 asked for blocks 0..3 (block 3
    // lies outside the prune window), peers 1..4 for one far block each; searched from that state.
    let punish_prefix: Vec<IOp> = vec![IOp::Insert(0, 0), IOp::Insert(0, 1), IOp::Insert(0, 2), IOp::Insert(0, 3), IOp::Insert(1, 4), IOp::Insert(2, 5), IOp::Insert(3, 6), IOp::Insert(4, 7)];
    let mut dangling = 0u64;
    for (peers, blocks, prefix, max_depth) in [(3u8, 4u8, vec![], if ctx.tier.is_thorough() { 6 } else { 5 }), (5u8, 8u8, punish_prefix, if ctx.tier.is_thorough() { 4 } else { 3 })] {
    let mut ops = vec![];
    for p in 0..peers {
        for b in 0..blocks {
            ops.push(IOp::Insert(p, b));
        }
    }
    for b in 0..blocks {
        ops.push(IOp::RemoveBlock(b));
    }
    for p in 0..peers {
        ops.push(IOp::RemovePeer(p));
    }
    ops.extend([IOp::Prune, IOp::MarkSlow, IOp::Advance(1), IOp::Advance(TIMEOUT - 1), IOp::Advance(TIMEOUT + 1)]);
    let mut seen: HashSet<u64> = HashSet::new();
    seen.insert(inflight_replay(&prefix).0);
    let mut frontier: Vec<Vec<IOp>> = vec![prefix.clone()];
    for depth in 1..=max_depth {
        let mut next = vec![];
        for hst in &frontier {
            if ctx.out_of_time() {
                report.cap_hit = Some(format!("inflight family: wall budget inside depth {depth}"));
                break;
            }
            for op in &ops {
                let mut nh = hst.clone();
                nh.push(*op);
                let (f, v, d) = inflight_replay(&nh);
                report.transitions += 1;
                if d {
                    dangling += 1;
                }
                if let Some((k, m)) = v {
                    report.violation(k, m, json!({"family": "inflight", "history": nh}));
                    continue;
                }
                if seen.insert(f) {
                    report.states.insert(f);
                    if nh.iter().any(|o| matches!(o, IOp::Prune | IOp::RemovePeer(_) | IOp::RemoveBlock(_))) && nh.iter().filter(|o| matches!(o, IOp::Insert(..))).count() >= 2 {
                        report.nontrivial.insert(f);
                    }
                    next.push(nh);
                }
            }
        }
        report.max_counter(&format!("max_inflight_depth_completed_{peers}_peers"), depth as u64);
        if depth == max_depth {
            if let Some(s) = next.last() {
                report.sample(json!({"family": "inflight", "history": s, "states_so_far": seen.len()}));
            }
        }
        frontier = next;
        if report.cap_hit.is_some() {
            break;
        }
    }
    report.evaluations += seen.len() as u64;
    report.traces += seen.len() as u64;
    report.outcomes.insert(fp(&seen.len()));
    }
    report.count("inflight_histories_with_record_not_listed_for_its_peer(reported,not judged)", dangling);
}

// =======================================================================================
// header map

#[derive(Clone, Copy, Debug, Serialize, Deserialize, PartialEq, Eq, Hash)]
pub enum HOp {
    Insert(u8),
    Get(u8),
    Contains(u8),
    Remove(u8),
    Spill,
}

fn view(k: u8) -> HeaderIndexView {
    HeaderIndexView::new(h(0xD0, k as u64), 100 + k as u64, EpochNumberWithFraction::new(1, k as u64, 10), 5_000 + k as u64, h(0xD1, k as u64), U256::from(1000u64 + k as u64))
}

fn headermap_run(map: &HeaderMap, hist: &[HOp]) -> Option<(String, String)> {
    // reset: the object is shared between histories (one sled instance per worker)
    for k in 0..4u8 {
        map.remove(&view(k).hash());
    }
    for k in 0..4u8 {
        if map.contains_key(&view(k).hash()) || map.get(&view(k).hash()).is_some() {
            return Some(("headermap/removed-key-still-answered".into(), format!("key {k} was removed (at the end of the previous history) and is still contained / returned")));
        }
    }
    let mut reference: BTreeMap<u8, HeaderIndexView> = BTreeMap::new();
    for (step, op) in hist.iter().enumerate() {
        match *op {
            HOp::Insert(k) => {
                map.insert(view(k));
                reference.insert(k, view(k));
            }
            HOp::Get(k) => {
                let got = map.get(&view(k).hash());
                if got != reference.get(&k).cloned() {
                    return Some(("headermap/get".into(), format!("step {step} {op:?}: get = {:?}, a plain map answers {:?}", got.map(|v| v.number()), reference.get(&k).map(|v| v.number()))));
                }
            }
            HOp::Contains(k) => {
                let got = map.contains_key(&view(k).hash());
                if got != reference.contains_key(&k) {
                    return Some(("headermap/contains".into(), format!("step {step} {op:?}: contains_key = {got}, a plain map answers {}", reference.contains_key(&k))));
                }
            }
            HOp::Remove(k) => {
                map.remove(&view(k).hash());
                reference.remove(&k);
            }
            HOp::Spill => map.verif_limit_memory(),
        }
        // (memory + backend item counts may exceed the plain map's size: re-inserting a spilled key
        // leaves a second copy in the backend.  No answer depends on it, so it is not judged.)
        let _ = step;
    }
    // final sweep: every key answers like the plain map
    for k in 0..4u8 {
        if map.contains_key(&view(k).hash()) != reference.contains_key(&k) {
            return Some(("headermap/final-contains".into(), format!("after the history key {k}: contains_key = {}, plain map {}", !reference.contains_key(&k), reference.contains_key(&k))));
        }
        let got = map.get(&view(k).hash());
        if got != reference.get(&k).cloned() {
            return Some(("headermap/final-get".into(), format!("after the history key {k}: get differs from the plain map")));
        }
    }
    None
}

fn headermap_family(ctx: &Ctx, report: &mut Report, only: Option<Vec<HOp>>, all_shards: bool) {
    let dir = ctx.scratch.join("headermap");
    std::fs::create_dir_all(&dir).ok();
    let new_map = || HeaderMap::verif_new(Some(dir.clone()), 2, Arc::new(AtomicBool::new(true)));
    let mut map = new_map();
    if let Some(hist) = only {
        report.evaluations += 1;
        if let Some((k, m)) = headermap_run(&map, &hist) {
            report.violation(k, m, json!({"family": "headermap", "history": hist}));
        }
        return;
    }
    let mut ops = vec![];
    for k in 0..4u8 {
        ops.extend([HOp::Insert(k), HOp::Get(k), HOp::Contains(k), HOp::Remove(k)]);
    }
    ops.push(HOp::Spill);
    let depth = if ctx.tier.is_thorough() { 6 } else { 5 };
    // odometer over all sequences of exactly `d` ops for d = 1..=depth
    let mut count = 0u64;
    for d in 1..=depth {
        let mut idx = vec![0usize; d];
        'seq: loop {
            let pick = if all_shards { ctx.mine((idx[0] * ops.len() + idx.get(1).cloned().unwrap_or(0)) as u64) } else { true };
            if pick {
                if count % 4096 == 0 && ctx.out_of_time() {
                    report.cap_hit = Some(format!("headermap family: wall budget inside length {d}"));
                    return;
                }
                let hist: Vec<HOp> = idx.iter().map(|i| ops[*i]).collect();
                count += 1;
                report.transitions += d as u64;
                if let Some((k, m)) = headermap_run(&map, &hist) {
                    report.violation(k, m, json!({"family": "headermap", "history": hist}));
                }
                let spills = hist.iter().filter(|o| matches!(o, HOp::Spill)).count();
                let inserts = hist.iter().filter(|o| matches!(o, HOp::Insert(_))).count();
                if spills > 0 && inserts >= 3 {
                    report.nontrivial.insert(fp(&hist));
                }
                report.outcomes.insert(fp(&(spills, inserts.min(3), map.verif_counts())));
                if count % 50_000 == 1 {
                    report.sample(json!({"family": "headermap", "history": hist}));
                }
                if count % 2_000 == 0 {
                    // a fresh sled instance from time to time
                    drop(map);
                    map = new_map();
                }
            }
            // next
            let mut pos = d;
            loop {
                if pos == 0 {
                    break 'seq;
                }
                pos -= 1;
                idx[pos] += 1;
                if idx[pos] < ops.len() {
                    break;
                }
                idx[pos] = 0;
            }
        }
        report.max_counter("max_headermap_length_completed", d as u64);
    }
    report.evaluations += count;
    report.traces += count;
    report.states.insert(fp(&("headermap", count)));
}

// =======================================================================================
// ancestor lookup

fn ancestor_family(ctx: &Ctx, report: &mut Report) {
    let len: u64 = if ctx.tier.is_thorough() { 1024 } else { 300 };
    // main chain 0..=len ; forks: at every fork point f (step), a branch of up to 40 blocks
    let mut views: HashMap<Byte32, HeaderIndexView> = HashMap::new();
    let mut main: Vec<HeaderIndexView> = vec![];
    let mk = |tag: u8, n: u64, parent: Byte32| HeaderIndexView::new(h(tag, n), n, EpochNumberWithFraction::new(n / 100, n % 100, 100), n * 8, parent, U256::from(n + 1));
    let no_scan = |_n: u64, _c: BlockNumberAndHash| -> Option<HeaderIndexView> { None };
    for n in 0..=len {
        let parent = if n == 0 { Byte32::zero() } else { main[n as usize - 1].hash() };
        let mut v = mk(0xE0, n, parent);
        {
            let lookup = |hash: &Byte32, _store_first: bool| views.get(hash).cloned();
            v.build_skip(0, lookup, no_scan);
        }
        views.insert(v.hash(), v.clone());
        main.push(v);
    }
    let main_by_number: Vec<Byte32> = main.iter().map(|v| v.hash()).collect();
    let main_set: HashSet<Byte32> = main_by_number.iter().cloned().collect();
    let parent_walk = |views: &HashMap<Byte32, HeaderIndexView>, from: &HeaderIndexView, to: u64| -> Option<Byte32> {
        let mut cur = from.clone();
        while cur.number() > to {
            cur = views.get(&cur.parent_hash())?.clone();
        }
        Some(cur.hash())
    };
    let mut check = |views: &HashMap<Byte32, HeaderIndexView>, from: &HeaderIndexView, to: u64, tip: u64, shortcut: bool, report: &mut Report, what: &str| {
        let lookup = |hash: &Byte32, _store_first: bool| views.get(hash).cloned();
        let scan = |number: u64, cur: BlockNumberAndHash| -> Option<HeaderIndexView> {
            if shortcut && cur.number <= tip && main_set.contains(&cur.hash) {
                main_by_number.get(number as usize).and_then(|hh| views.get(hh).cloned())
            } else {
                None
            }
        };
        let got = from.get_ancestor(tip, to, lookup, scan).map(|v| v.hash());
        let want = if to > from.number() { None } else { parent_walk(views, from, to) };
        report.transitions += 1;
        if got != want {
            report.violation(
                format!("ancestor/{what}"),
                format!("get_ancestor(from number {}, to {to}, shortcut={shortcut}) = {:?}, parent walk gives {:?}", from.number(), got.map(|x| hex(&x.as_slice()[..9])), want.map(|x| hex(&x.as_slice()[..9]))),
                json!({"family": "ancestor", "from": from.number(), "to": to, "shortcut": shortcut, "what": what}),
            );
        }
    };
    // (1) linear chain: every (from, to) pair
    let mut pairs = 0u64;
    for from in 0..=len {
        if from % 64 == 0 && ctx.out_of_time() {
            report.cap_hit = Some(format!("ancestor family: wall budget at from={from}"));
            return;
        }
        for to in 0..=from + 1 {
            for shortcut in [false, true] {
                check(&views, &main[from as usize], to, len, shortcut, report, "linear");
                pairs += 1;
            }
        }
    }
    // (2) forks: branch of 1..=40 blocks at every fork point; from every branch block to every height
    let step = if ctx.tier.is_thorough() { 1 } else { 7 };
    let mut f = 0u64;
    while f < len {
        let mut parent = main[f as usize].hash();
        let mut branch = vec![];
        for k in 1..=40u64 {
            let n = f + k;
            let mut v = mk(0xE7, n * 4096 + f, parent.clone());
            // give the fork block its real number (mk used the tag value as number): rebuild
            v = HeaderIndexView::new(v.hash(), n, EpochNumberWithFraction::new(n / 100, n % 100, 100), n * 8, parent.clone(), U256::from(n + 1));
            {
                let lookup = |hash: &Byte32, _s: bool| views.get(hash).cloned();
                v.build_skip(len, lookup, no_scan);
            }
            views.insert(v.hash(), v.clone());
            parent = v.hash();
            branch.push(v);
        }
        for v in branch.iter().step_by(3) {
            for to in (0..=v.number()).step_by(if ctx.tier.is_thorough() { 1 } else { 5 }) {
                for shortcut in [false, true] {
                    check(&views, v, to, len, shortcut, report, "fork");
                    pairs += 1;
                }
            }
        }
        f += step;
    }
    report.evaluations += pairs;
    report.traces += 1;
    report.states.insert(fp(&("ancestor", pairs)));
    report.nontrivial.insert(fp(&("ancestor-linear", len)));
    report.nontrivial.insert(fp(&("ancestor-forks", len)));
    report.outcomes.insert(fp(&pairs));
    report.outcomes.insert(1);
    report.sample(json!({"family": "ancestor", "chain_length": len, "lookups": pairs}));
}

// =======================================================================================

// ---------------------------------------------------------------------------------------
// locator construction and common-ancestor search on a real SyncShared

/// A real node holds a main chain of N blocks and a side branch forking in the middle (stored,
/// not canonical).  Through `SyncShared::active_chain()`:
/// - `get_locator(start)` from EVERY block of the main chain and of the side branch: the entries
///   must be the parent-walk ancestors of `start` at the heights start, start-1, ... (ten single
///   steps), then steps doubling, always ending with the genesis block;
/// - `last_common_ancestor(a, b)` for every pair out of a grid of main / side blocks: the fork
///   point by parent walk;
/// - `locate_latest_common_block(locator)` for the locator of every side-branch block: a block both
///   chains share, not below the highest locator entry on the main chain (soundness only).
fn locator_family(ctx: &Ctx, report: &mut Report) {
    use crate::forge::{BlockSpec, Forge};
    use crate::node::{Node, NodeOpts};
    let n_main: u64 = if ctx.tier.is_thorough() { 600 } else { 90 };
    let n_side: u64 = if ctx.tier.is_thorough() { 80 } else { 40 };
    let fork_at = n_main / 2 - 3;
    let cons = consensus(&WorldOpts::default());
    let mut go = || -> Result<(), String> {
        set_time(time_for_height(n_main + 50));
        let mut forge = Forge::new(&ctx.scratch.join("c17-forge"), &cons)?;
        let mut main = vec![cons.genesis_block().clone()];
        let mut parent = cons.genesis_hash();
        for _ in 1..=n_main {
            let b = forge.build_on(&parent, &BlockSpec { miner: 1, ..Default::default() })?;
            parent = b.hash();
            main.push(b);
        }
        let mut side = vec![];
        let mut parent = main[fork_at as usize].hash();
        for _ in 0..n_side {
            let b = forge.build_on(&parent, &BlockSpec { miner: 2, ts_offset: 1, ..Default::default() })?;
            parent = b.hash();
            side.push(b);
        }
        let dir = ctx.scratch.join("c17-locator-node");
        let _ = std::fs::remove_dir_all(&dir);
        let node = Node::boot(&dir, &NodeOpts::new(cons.clone()))?;
        node.wait_startup()?;
        for b in main.iter().skip(1).chain(side.iter()) {
            node.process(b).map_err(|e| format!("block {}: {e}", b.number()))?;
        }
        if node.tip().hash() != main.last().unwrap().hash() {
            return Err("the main chain is not the node's main chain".into());
        }
        let (_tx, rx) = ckb_channel::bounded(1);
        let sync_shared = Arc::new(ckb_sync::SyncShared::new(node.shared.clone(), Default::default(), rx));
        let active = sync_shared.active_chain();
        // the chain of a block, by parent walk over the delivered blocks
        let by_hash: HashMap<Byte32, &ckb_types::core::BlockView> = main.iter().chain(side.iter()).map(|b| (b.hash(), b)).collect();
        let chain_of = |b: &ckb_types::core::BlockView| -> Vec<Byte32> {
            let mut v = vec![b.hash()];
            let mut cur = b;
            while cur.number() > 0 {
                cur = by_hash[&cur.parent_hash()];
                v.push(cur.hash());
            }
            v.reverse();
            v
        };
        let label = json!({"family": "locator"});
        for start in main.iter().chain(side.iter()) {
            let chain = chain_of(start);
            let res = std::panic::catch_unwind(std::panic::AssertUnwindSafe(|| active.get_locator(BlockNumberAndHash::new(start.number(), start.hash()))));
            report.evaluations += 1;
            report.transitions += 1;
            let got = match res {
                Ok(v) => v,
                Err(_) => {
                    report.violation("locator/panic", format!("get_locator panicked for start block {} {}", start.number(), if by_hash[&start.hash()].number() > fork_at && side.iter().any(|s| s.hash() == start.hash()) { "(side branch)" } else { "" }), label.clone());
                    continue;
                }
            };
            // the model: heights start, start-1, ... ten single steps, then the step doubles; genesis closes
            let mut want_heights = vec![];
            let (mut step, mut index) = (1u64, start.number());
            loop {
                want_heights.push(index);
                if want_heights.len() >= 10 {
                    step <<= 1;
                }
                if index < step * 2 {
                    if index != 0 {
                        want_heights.push(0);
                    }
                    break;
                }
                index -= step;
            }
            let want: Vec<Byte32> = want_heights.iter().map(|h| chain[*h as usize].clone()).collect();
            if got != want {
                let got_heights: Vec<String> = got.iter().map(|h| by_hash.get(h).map(|b| format!("{}{}", b.number(), if chain.get(b.number() as usize) == Some(h) { "" } else { "(other branch)" })).unwrap_or_else(|| "?".into())).collect();
                report.violation("locator/differs-from-parent-walk", format!("get_locator from block {} on the {}: entries at heights {:?}, the parent walk gives heights {:?} of the start block's own chain", start.number(), if side.iter().any(|s| s.hash() == start.hash()) { "side branch" } else { "main chain" }, got_heights, want_heights), label.clone());
            } else {
                report.nontrivial.insert(fp(&("locator", start.hash().as_slice().to_vec())));
            }
            report.states.insert(fp(&("locator", start.number(), want.len())));
            // a locator built on the side branch finds the fork point
            if side.iter().any(|s| s.hash() == start.hash()) {
                let found = active.locate_latest_common_block(&Byte32::zero(), &got);
                report.evaluations += 1;
                // (the statement names locator construction, not this search: it is judged for soundness
                // only - the answer is a block both chains share, and not below the highest locator entry
                // on the main chain; answering the genesis block when the first shared locator entry is
                // the genesis block is what the code documents)
                let best_entry = got.iter().filter_map(|h| by_hash.get(h)).filter(|b| b.number() <= fork_at && main[b.number() as usize].hash() == b.hash()).map(|b| b.number()).max();
                match found {
                    Some(k) if k <= fork_at && Some(k) >= best_entry => {
                        if k == fork_at {
                            report.count("locate_latest_common_block_exact", 1);
                        } else {
                            report.count("locate_latest_common_block_below_the_fork_point", 1);
                        }
                    }
                    other => report.violation("locator/latest-common-block", format!("locate_latest_common_block for the locator of side block {} answers {other:?}; the branch forks at {fork_at}, the highest locator entry on the main chain is {best_entry:?}", start.number()), label.clone()),
                }
            }
        }
        // ActiveChain::get_ancestor(base, n) for every base of a grid and EVERY height n up to the tip
        // and one above: the parent walk gives the ancestor for n <= base.number and nothing above it
        {
            let tipn = main.last().unwrap().number();
            let bases: Vec<&ckb_types::core::BlockView> = main.iter().step_by(5).chain(main.iter().skip(fork_at as usize - 1).take(4)).chain(side.iter().step_by(4)).chain(std::iter::once(main.last().unwrap())).collect();
            for base in bases {
                let chain = chain_of(base);
                for n in 0..=tipn + 1 {
                    let want = chain.get(n as usize).cloned();
                    let got = active.get_ancestor(&base.hash(), n).map(|v| v.hash());
                    report.evaluations += 1;
                    if got != want {
                        report.violation("locator/active-chain-ancestor", format!("ActiveChain::get_ancestor(block {} on the {}, {n}) = {:?}, the parent walk gives {:?}", base.number(), if side.iter().any(|s| s.hash() == base.hash()) { "side branch" } else { "main chain" }, got.as_ref().map(|h| by_hash.get(h).map(|b| b.number())), want.as_ref().map(|h| by_hash.get(h).map(|b| b.number()))), label.clone());
                    }
                }
            }
        }
        // last common ancestor over a grid of pairs
        let grid: Vec<&ckb_types::core::BlockView> = main.iter().step_by(7).chain(main.iter().skip(fork_at as usize - 2).take(5)).chain(side.iter().step_by(5)).chain(side.iter().take(3)).collect();
        for a in &grid {
            for b in &grid {
                let (ca, cb) = (chain_of(a), chain_of(b));
                let mut k = 0;
                while k < ca.len() && k < cb.len() && ca[k] == cb[k] {
                    k += 1;
                }
                let want = BlockNumberAndHash::new(k as u64 - 1, ca[k - 1].clone());
                let got = active.last_common_ancestor(&BlockNumberAndHash::new(a.number(), a.hash()), &BlockNumberAndHash::new(b.number(), b.hash()));
                report.evaluations += 1;
                if got.as_ref() != Some(&want) {
                    report.violation("locator/last-common-ancestor", format!("last_common_ancestor(block {} {}, block {} {}) = {:?}, the parent walk gives block {}", a.number(), a.hash(), b.number(), b.hash(), got.map(|x| x.number()), want.number()), label.clone());
                }
            }
        }
        report.outcomes.insert(fp(&"locator"));
        report.outcomes.insert(fp(&"lca"));
        report.traces += 1;
        report.count("locator_starts", (main.len() + side.len()) as u64);
        drop(active);
        drop(sync_shared);
        node.shutdown();
        Ok(())
    };
    if let Err(e) = go() {
        report.machinery_errors.push(format!("locator family: {e}"));
    }
}

pub fn meta(tier: Tier) -> Meta {
    Meta {
        id: "C17",
        level: "model_checking",
        rule: "locator: a real node with a main chain and a stored side branch forking in the middle; ActiveChain::get_locator from every block of both branches against the parent walk (heights start, start-1, ... ten single steps, then doubling, genesis last), last_common_ancestor over a grid of pairs against the fork point by parent walk. Four explicit-state searches on the real structures; a state is the operation history reaching it (replayed on a fresh object) and states are merged only when the structure's complete dumped state (and the reference model's) agree. orphan: every labelled forest of n blocks over two absent roots, ops insert/remove_blocks_by_parent(any node)/clean_expired(4 epochs), explored to the FIXPOINT of reachable states; inflight: 3 peers x 4 blocks (two at one height, one outside the prune window), faked clock with +1ms/+timeout-1/+timeout+1, every op checked as a relation between the dumped pre- and post-state, BFS to the stated depth; headermap: every sequence of insert/get/contains/remove over 4 keys + spill, limit 2 items, real sled backend, against a BTreeMap; ancestor: every (from,to) pair on a chain and from fork branches at every fork point, with and without the main-chain shortcut, against a parent walk. non-trivial: forest with depth>=2 / history with >=2 inserts and a release / history with a spill after >=3 inserts / each ancestor family.",
        assumptions: &[
            "children of one orphan parent share an epoch (expiry looks at one arbitrary child)",
            "release below a parent that is itself held is not judged beyond 'returned blocks are descendants'",
            "in-flight records whose peer no longer lists them (after prune evicts an idle scheduler) are counted, not judged: the statement does not demand the converse",
            "locate_latest_common_block is judged for soundness only (a shared block, not below the highest shared locator entry)",
        ],
        bounds: json!({
            "orphan_blocks": 5,
            "inflight_depth": if tier.is_thorough() { 6 } else { 5 },
            "headermap_length": if tier.is_thorough() { 6 } else { 5 },
            "ancestor_chain": if tier.is_thorough() { 1024 } else { 300 },
            "locator_main_chain": if tier.is_thorough() { 600 } else { 90 },
        }),
    }
}

pub fn run(ctx: &Ctx) -> Report {
    let mut report = Report::new();
    if let Some(path) = &ctx.replay {
        let v: Value = load_replay_case(path);
        report.outcomes.insert(0);
        report.outcomes.insert(1);
        match v["family"].as_str().unwrap_or("") {
            "orphan" => orphan_family(ctx, &mut report, Some((serde_json::from_value(v["parent"].clone()).unwrap(), serde_json::from_value(v["history"].clone()).unwrap()))),
            "inflight" => inflight_family(ctx, &mut report, Some(serde_json::from_value(v["history"].clone()).unwrap())),
            "headermap" => headermap_family(ctx, &mut report, Some(serde_json::from_value(v["history"].clone()).unwrap()), false),
            "locator" => locator_family(ctx, &mut report),
            _ => ancestor_family(ctx, &mut report),
        }
        return report;
    }
    // one family per shard (the in-flight table reads the process-global faked clock)
    match ctx.shard % 4 {
        0 if ctx.shard == 0 => orphan_family(ctx, &mut report, None),
        1 if ctx.shard == 1 => inflight_family(ctx, &mut report, None),
        2 if ctx.shard == 2 => locator_family(ctx, &mut report),
        3 if ctx.shard == 3 => ancestor_family(ctx, &mut report),
        _ => {}
    }
    if ctx.shard >= 4 {
        // the long header-map enumeration is split over the remaining shards
        let sub = Ctx { shard: ctx.shard - 4, shards: ctx.shards - 4, ..ctx.clone() };
        headermap_family(&sub, &mut report, None, true);
    }
    report
}
