//! Engine `sched`: a gate scheduler for the three production threads of the chain service
//! (service / preload / verify) and a stateless, preemption-bounded depth-first explorer over
//! their interleavings.
//!
//! The threads are ckb's own (`ChainService::start_process_block`,
//! `PreloadUnverifiedBlocksChannel::start`, `ConsumeUnverifiedBlocks::start`), unmodified except for
//! `verif::point(site, hash)` calls (cargo feature `verif-hooks`) before each of their accesses to
//! state they share: channel send / receive, the pending-verification set, the block status map,
//! the orphan pool, database commits, snapshot load / publication.  With a controller installed a
//! thread arriving at a point parks until the explorer grants it the baton; `*:idle` points (top of
//! each `select!` loop) only report.  At most one of the three threads is between two points at any
//! time, so an execution is a sequence of atomic point-to-point blocks of real code and the list
//! of baton grants determines it.
//!
//! Enabledness is exact: a role is enabled iff it is parked at a point.  A role reported idle
//! whose queue is known to be non-empty (every send and receive passes a point, so queue lengths
//! are known) is on its way to its `recv` point and the explorer waits for it; "every role idle,
//! every queue empty" is quiescence.
use ckb_types::packed::Byte32;
use std::sync::{Arc, Condvar, Mutex, OnceLock};
use std::time::{Duration, Instant};

pub const ROLE_NAMES: [&str; 3] = ["service", "preload", "verify"];

fn role_of(site: &str) -> Option<usize> {
    if site.starts_with("service:") || site.starts_with("broker:") {
        Some(0)
    } else if site.starts_with("preload:") {
        Some(1)
    } else if site.starts_with("verify:") {
        Some(2)
    } else {
        None
    }
}

#[derive(Clone, Debug, PartialEq, Eq)]
pub enum St {
    Idle,
    Parked(&'static str, Byte32),
    Running,
}

struct Inner {
    st: [St; 3],
    grant: [bool; 3],
    /// messages queued for each role (sent, not yet received)
    q: [i64; 3],
    /// role r passed a send point: when it arrives at its next point the target's queue grows
    credit: [Option<usize>; 3],
    active: bool,
    panicked: Option<String>,
    /// the thread playing each role, learnt at its first `recv` point.  Other nodes of the process
    /// (the forge that builds the universes, a node that is shutting down) run the same code under
    /// the same thread names: a late `idle` report of one of THEIR threads must not be taken for the
    /// role's (it made a parked role look idle: "no stable state" / replay divergences under load)
    tid: [Option<std::thread::ThreadId>; 3],
}

pub struct Controller {
    m: Mutex<Inner>,
    cv: Condvar,
}

static CURRENT: Mutex<Option<Arc<Controller>>> = Mutex::new(None);
static HOOK: OnceLock<()> = OnceLock::new();

fn install_panic_hook() {
    HOOK.get_or_init(|| {
        let prev = std::panic::take_hook();
        std::panic::set_hook(Box::new(move |info| {
            let name = std::thread::current().name().unwrap_or("?").to_string();
            let cur = CURRENT.lock().map(|g| g.clone()).unwrap_or(None);
            match cur {
                Some(c) if ["ChainService", "preload_unverified_block", "verify_blocks"].contains(&name.as_str()) => {
                    let msg = format!("thread {name} panicked: {info}");
                    if let Ok(mut g) = c.m.lock() {
                        if g.panicked.is_none() {
                            g.panicked = Some(msg);
                        }
                    }
                    c.cv.notify_all();
                }
                _ => prev(info),
            }
        }));
    });
}

#[derive(Clone, Debug)]
pub struct Enabled {
    pub role: usize,
    pub site: &'static str,
    pub hash: Byte32,
}

#[derive(Clone, Debug)]
pub struct ChoicePoint {
    pub enabled: Vec<Enabled>,
    pub chosen: usize,
    /// the role that ran the previous step
    pub prev: Option<usize>,
}

pub enum Stable {
    /// some roles are parked
    Choice(Vec<Enabled>),
    /// every role idle, every queue empty
    Quiescent,
    /// a chain-service thread panicked
    Panicked(String),
    /// no stable state within the time limit
    Timeout(String),
}

impl Controller {
    /// Installs a fresh controller as the chain crate's scheduler callback.  The three threads must
    /// be idle (a freshly booted node after `wait_startup`).
    pub fn install() -> Arc<Controller> {
        install_panic_hook();
        let c = Arc::new(Controller {
            m: Mutex::new(Inner { st: [St::Idle, St::Idle, St::Idle], grant: [false; 3], q: [0; 3], credit: [None; 3], active: true, panicked: None, tid: [None; 3] }),
            cv: Condvar::new(),
        });
        *CURRENT.lock().unwrap() = Some(Arc::clone(&c));
        let cc = Arc::clone(&c);
        ckb_chain::verif::set_sched(Some(Arc::new(move |site: &'static str, hash: &Byte32| cc.point(site, hash))));
        c
    }

    /// Removes the callback and releases every parked thread.
    pub fn uninstall(&self) {
        ckb_chain::verif::set_sched(None);
        {
            let mut g = self.m.lock().unwrap();
            g.active = false;
        }
        self.cv.notify_all();
        *CURRENT.lock().unwrap() = None;
    }

    fn point(&self, site: &'static str, hash: &Byte32) {
        let Some(r) = role_of(site) else { return };
        let mut g = self.m.lock().unwrap();
        if !g.active {
            return;
        }
        let me = std::thread::current().id();
        if g.tid[r].is_none() && site.ends_with(":recv") {
            g.tid[r] = Some(me);
        }
        if g.tid[r] != Some(me) {
            // not a thread of the node under exploration
            return;
        }
        if let Some(t) = g.credit[r].take() {
            g.q[t] += 1;
        }
        if site.ends_with(":idle") {
            g.st[r] = St::Idle;
            self.cv.notify_all();
            return;
        }
        if site.ends_with(":recv") {
            g.q[r] -= 1;
        }
        g.st[r] = St::Parked(site, hash.clone());
        self.cv.notify_all();
        while !g.grant[r] && g.active {
            g = self.cv.wait(g).unwrap();
        }
        g.grant[r] = false;
        g.st[r] = St::Running;
        match site {
            "broker:send-preload" => g.credit[0] = Some(1),
            "preload:send" => g.credit[1] = Some(2),
            _ => {}
        }
    }

    /// The driver has put `n` more requests into the service thread's queue (call BEFORE sending).
    pub fn announce_deliveries(&self, n: i64) {
        self.m.lock().unwrap().q[0] += n;
    }

    pub fn wait_stable(&self, limit: Duration) -> Stable {
        let t = Instant::now();
        let mut g = self.m.lock().unwrap();
        loop {
            if let Some(p) = &g.panicked {
                return Stable::Panicked(p.clone());
            }
            let stable = (0..3).all(|r| match &g.st[r] {
                St::Running => false,
                St::Idle => g.q[r] == 0,
                St::Parked(..) => true,
            });
            if stable {
                let enabled: Vec<Enabled> = (0..3)
                    .filter_map(|r| match &g.st[r] {
                        St::Parked(site, hash) => Some(Enabled { role: r, site, hash: hash.clone() }),
                        _ => None,
                    })
                    .collect();
                if enabled.is_empty() {
                    return Stable::Quiescent;
                }
                return Stable::Choice(enabled);
            }
            let left = limit.checked_sub(t.elapsed());
            match left {
                None => return Stable::Timeout(format!("states {:?}, queues {:?}", g.st, g.q)),
                Some(l) => {
                    let (ng, _) = self.cv.wait_timeout(g, l.min(Duration::from_millis(50))).unwrap();
                    g = ng;
                }
            }
        }
    }

    pub fn grant(&self, role: usize) {
        let mut g = self.m.lock().unwrap();
        debug_assert!(matches!(g.st[role], St::Parked(..)));
        g.st[role] = St::Running;
        g.grant[role] = true;
        drop(g);
        self.cv.notify_all();
    }
}

/// What one controlled execution produced.
pub struct Execution<O> {
    pub points: Vec<ChoicePoint>,
    pub outcome: O,
    /// a prefix choice could not be followed (the recorded role was not enabled)
    pub diverged: Option<String>,
}

/// Default policy: keep running the previous role while it is enabled, else the lowest role id.
pub fn default_choice(enabled: &[Enabled], prev: Option<usize>) -> usize {
    if let Some(p) = prev {
        if enabled.iter().any(|e| e.role == p) {
            return p;
        }
    }
    enabled.iter().map(|e| e.role).min().unwrap()
}

pub struct ExploreStats {
    /// replays that did not see what their parent execution saw (re-run; never a verdict)
    pub divergences: Vec<String>,
    pub schedules: u64,
    pub steps: u64,
    pub max_points: usize,
    pub capped: bool,
}

/// Stateless depth-first exploration with a preemption bound (iterative context bounding as in
/// CHESS): `run(prefix)` must replay the given choices (roles) and then follow the default policy.
/// `visit` sees every execution; returning false stops the exploration.
pub fn explore<O>(
    bound: usize,
    max_schedules: u64,
    run: &mut dyn FnMut(&[usize]) -> Result<Execution<O>, String>,
    visit: &mut dyn FnMut(&Execution<O>, &[usize]) -> bool,
    mine: &dyn Fn(u64) -> bool,
) -> Result<ExploreStats, String> {
    let mut stats = ExploreStats { divergences: vec![], schedules: 0, steps: 0, max_points: 0, capped: false };
    // work list of prefixes (depth-first)
    // (prefix, preemptions used, what the parent execution saw at each point of the prefix)
    type Seen = Vec<Vec<(usize, &'static str)>>;
    let mut stack: Vec<(Vec<usize>, usize, std::rc::Rc<Seen>)> = vec![(vec![], 0, std::rc::Rc::new(vec![]))];
    let mut top_level_units: u64 = 0;
    while let Some((prefix, used, parent_seen)) = stack.pop() {
        if stats.schedules >= max_schedules {
            stats.capped = true;
            break;
        }
        // determinism obligation: along the replayed prefix an execution must see exactly what its
        // parent saw (same roles parked at the same sites), up to the deviating choice.  A divergence
        // is never a verdict; the schedule is run again (up to three times, counted) and a schedule
        // that keeps diverging is a machinery error.
        let mut attempt = 0;
        let (x, seen) = loop {
            attempt += 1;
            let x = run(&prefix)?;
            let seen: Seen = x.points.iter().map(|p| p.enabled.iter().map(|e| (e.role, e.site)).collect()).collect();
            let upto = prefix.len().min(parent_seen.len()).min(seen.len());
            let mut problem = None;
            for j in 0..upto {
                if seen[j] != parent_seen[j] {
                    let lo = j.saturating_sub(3);
                    problem = Some(format!("at point {j} the parent execution saw {:?}, this one {:?}; grants before: {:?}; parent's points {lo}..{j}: {:?}; this execution's: {:?}", parent_seen[j], seen[j], &prefix[lo..j], &parent_seen[lo..j], &seen[lo..j]));
                    break;
                }
            }
            if problem.is_none() {
                problem = x.diverged.clone();
            }
            match problem {
                None => break (x, seen),
                Some(d) => {
                    stats.divergences.push(format!("attempt {attempt} under prefix of {} grants: {d}", prefix.len()));
                    if attempt >= 3 {
                        return Err(format!("replay divergence (3 attempts) under prefix {prefix:?}: {d}"));
                    }
                }
            }
        };
        let seen = std::rc::Rc::new(seen);
        stats.schedules += 1;
        stats.steps += x.points.len() as u64;
        stats.max_points = stats.max_points.max(x.points.len());
        if !visit(&x, &prefix) {
            break;
        }
        // preemptions used by the choices up to (excluding) point i
        let mut cost = used;
        let mut children = vec![];
        for i in prefix.len()..x.points.len() {
            let p = &x.points[i];
            let prev_enabled = p.prev.map(|pr| p.enabled.iter().any(|e| e.role == pr)).unwrap_or(false);
            for e in &p.enabled {
                if e.role == p.chosen {
                    continue;
                }
                let c = cost + if prev_enabled && Some(e.role) != p.prev { 1 } else { 0 };
                if c > bound {
                    continue;
                }
                // sharding happens at the top level: alternatives of the root execution
                if prefix.is_empty() {
                    let unit = top_level_units;
                    top_level_units += 1;
                    if !mine(unit) {
                        continue;
                    }
                }
                let mut np: Vec<usize> = x.points[..i].iter().map(|q| q.chosen).collect();
                np.push(e.role);
                children.push((np, c, std::rc::Rc::clone(&seen)));
            }
            // the default continuation itself may be a preemption-free switch; its cost is 0 by
            // construction (default never preempts)
            let _ = &mut cost;
        }
        // push in reverse so that the earliest deviation is explored first
        for ch in children.into_iter().rev() {
            stack.push(ch);
        }
    }
    Ok(stats)
}
