//! Small-scope value zoo for the consensus and protocol data types: structure is enumerated
//! exhaustively (vector lengths 0..=2, every option/union arm), leaves rotate through their
//! boundary domains so that every domain value occurs in every position.
use ckb_types::{
    bytes::Bytes,
    core::{BlockBuilder, BlockView, DepType, HeaderBuilder, HeaderView, ScriptHashType, TransactionBuilder, TransactionView},
    packed::{self, Byte32, CellDep, CellInput, CellOutput, OutPoint, ProposalShortId, Script},
    prelude::*,
};

pub fn byte32s() -> Vec<Byte32> {
    vec![Byte32::zero(), Byte32::from_slice(&[0x01; 32]).unwrap(), Byte32::from_slice(&[0xff; 32]).unwrap(), {
        let mut b = [0u8; 32];
        b[0] = 0x80;
        b[31] = 0x7f;
        Byte32::from_slice(&b).unwrap()
    }]
}

pub fn u64s() -> Vec<u64> {
    vec![0, 1, u64::MAX, 1 << 63, 0x0102_0304_0506_0708]
}

pub fn u32s() -> Vec<u32> {
    vec![0, 1, u32::MAX, 1 << 31, 0x0102_0304]
}

pub fn byteses() -> Vec<Bytes> {
    vec![Bytes::new(), Bytes::from(vec![0u8]), Bytes::from(vec![1u8, 2, 3]), Bytes::from((0u8..40).collect::<Vec<u8>>())]
}

fn pick<T: Clone>(v: &[T], i: usize) -> T {
    v[i % v.len()].clone()
}

pub fn scripts() -> Vec<Script> {
    let mut out = vec![];
    for (i, ht) in [ScriptHashType::Data, ScriptHashType::Type, ScriptHashType::Data1, ScriptHashType::Data2].into_iter().enumerate() {
        for (j, args) in byteses().into_iter().enumerate() {
            out.push(Script::new_builder().code_hash(pick(&byte32s(), i + j)).hash_type(ht).args(args).build());
        }
    }
    out
}

pub fn out_points() -> Vec<OutPoint> {
    let mut out = vec![OutPoint::null()];
    for (i, h) in byte32s().into_iter().enumerate() {
        out.push(OutPoint::new(h, pick(&u32s(), i)));
    }
    out
}

pub fn cell_outputs() -> Vec<CellOutput> {
    let mut out = vec![];
    let ss = scripts();
    for (i, cap) in u64s().into_iter().enumerate() {
        out.push(CellOutput::new_builder().capacity(cap).lock(pick(&ss, i)).build());
        out.push(CellOutput::new_builder().capacity(cap).lock(pick(&ss, i + 3)).type_(Some(pick(&ss, i + 5))).build());
    }
    out
}

pub fn cell_deps() -> Vec<CellDep> {
    let mut out = vec![];
    for (i, op) in out_points().into_iter().enumerate() {
        out.push(CellDep::new_builder().out_point(op).dep_type(if i % 2 == 0 { DepType::Code } else { DepType::DepGroup }).build());
    }
    out
}

pub fn cell_inputs() -> Vec<CellInput> {
    let mut out = vec![];
    for (i, op) in out_points().into_iter().enumerate() {
        out.push(CellInput::new(op, pick(&u64s(), i)));
    }
    out
}

/// every combination of vector lengths 0..=2 for (cell_deps, header_deps, inputs, outputs, witnesses)
pub fn transactions() -> Vec<TransactionView> {
    let mut out = vec![];
    let (cds, hs, ins, outs, bs) = (cell_deps(), byte32s(), cell_inputs(), cell_outputs(), byteses());
    let mut salt = 0usize;
    for nd in 0..=2 {
        for nh in 0..=2 {
            for ni in 0..=2 {
                for no in 0..=2 {
                    for nw in 0..=2 {
                        salt += 1;
                        let mut b = TransactionBuilder::default().version(pick(&u32s(), salt));
                        for k in 0..nd {
                            b = b.cell_dep(pick(&cds, salt + k));
                        }
                        for k in 0..nh {
                            b = b.header_dep(pick(&hs, salt + k));
                        }
                        for k in 0..ni {
                            b = b.input(pick(&ins, salt + k));
                        }
                        for k in 0..no {
                            b = b.output(pick(&outs, salt + k)).output_data(pick(&bs, salt + k));
                        }
                        for k in 0..nw {
                            b = b.witness(pick(&bs, salt + k + 1));
                        }
                        out.push(b.build());
                    }
                }
            }
        }
    }
    out
}

pub fn headers() -> Vec<HeaderView> {
    let mut out = vec![];
    for i in 0..8usize {
        out.push(
            HeaderBuilder::default()
                .version(pick(&u32s(), i))
                .compact_target(pick(&u32s(), i + 1))
                .timestamp(pick(&u64s(), i))
                .number(pick(&u64s(), i + 1))
                .epoch(ckb_types::core::EpochNumberWithFraction::from_full_value(pick(&u64s(), i + 2)))
                .parent_hash(pick(&byte32s(), i))
                .transactions_root(pick(&byte32s(), i + 1))
                .proposals_hash(pick(&byte32s(), i + 2))
                .extra_hash(pick(&byte32s(), i + 3))
                .dao(pick(&byte32s(), i + 1))
                .nonce(if i % 2 == 0 { u128::MAX } else { i as u128 })
                .build(),
        );
    }
    out
}

pub fn proposal_ids() -> Vec<ProposalShortId> {
    vec![ProposalShortId::new([0; 10]), ProposalShortId::new([0xff; 10]), ProposalShortId::new([1, 2, 3, 4, 5, 6, 7, 8, 9, 10])]
}

/// blocks: tx count 1..=3 (first is always a cellbase-shaped tx), proposals 0..=2, uncles 0..=2,
/// extension absent / present with 0, 1, 32, 96 bytes
pub fn blocks() -> Vec<BlockView> {
    let txs = transactions();
    let hs = headers();
    let ps = proposal_ids();
    let mut out = vec![];
    let mut salt = 0usize;
    for ntx in 0..=3usize {
        for np in 0..=2usize {
            for nu in 0..=2usize {
                for ext in [None, Some(Bytes::new()), Some(Bytes::from(vec![5u8; 1])), Some(Bytes::from(vec![7u8; 32])), Some(Bytes::from(vec![9u8; 96]))] {
                    salt += 7;
                    let h = pick(&hs, salt);
                    let mut b = BlockBuilder::default().header(h);
                    for k in 0..ntx {
                        b = b.transaction(pick(&txs, salt * 3 + k * 17));
                    }
                    for k in 0..np {
                        b = b.proposal(pick(&ps, salt + k));
                    }
                    for k in 0..nu {
                        let uh = pick(&hs, salt + k + 1);
                        let u = BlockBuilder::default().header(uh).proposal(pick(&ps, k)).build().as_uncle();
                        b = b.uncle(u);
                    }
                    b = b.extension(ext.map(|e| e.pack()));
                    out.push(b.build());
                }
            }
        }
    }
    out
}

/// One encoded protocol message per union arm and content size class: (name, bytes)
pub fn messages() -> Vec<(String, Vec<u8>)> {
    let mut out: Vec<(String, Vec<u8>)> = vec![];
    let blocks = blocks();
    let small = blocks[0].clone();
    let big = blocks.iter().max_by_key(|b| b.data().as_slice().len()).unwrap().clone();
    // the smallest block that carries an extension (an extra molecule field)
    let ext = blocks.iter().filter(|b| b.extension().is_some()).min_by_key(|b| b.data().as_slice().len()).unwrap().clone();
    let hs = byte32s();
    let push = |out: &mut Vec<(String, Vec<u8>)>, n: &str, b: &[u8]| out.push((n.to_string(), b.to_vec()));

    // ---- sync
    let get_headers = packed::GetHeaders::new_builder().hash_stop(hs[1].clone()).block_locator_hashes(hs.clone().pack()).build();
    push(&mut out, "Sync/GetHeaders", packed::SyncMessage::new_builder().set(get_headers).build().as_slice());
    for (tag, n) in [("0", 0usize), ("2", 2)] {
        let send_headers = packed::SendHeaders::new_builder().headers(headers().into_iter().take(n).map(|h| h.data()).collect::<Vec<_>>().pack()).build();
        push(&mut out, &format!("Sync/SendHeaders{tag}"), packed::SyncMessage::new_builder().set(send_headers).build().as_slice());
    }
    let get_blocks = packed::GetBlocks::new_builder().block_hashes(hs.clone().pack()).build();
    push(&mut out, "Sync/GetBlocks", packed::SyncMessage::new_builder().set(get_blocks).build().as_slice());
    for (tag, b) in [("small", &small), ("ext", &ext), ("big", &big)] {
        let send_block = packed::SendBlock::new_builder().block(b.data()).build();
        push(&mut out, &format!("Sync/SendBlock-{tag}"), packed::SyncMessage::new_builder().set(send_block).build().as_slice());
    }
    push(&mut out, "Sync/InIBD", packed::SyncMessage::new_builder().set(packed::InIBD::new_builder().build()).build().as_slice());

    // ---- relay
    for (tag, b) in [("small", &small), ("ext", &ext), ("big", &big)] {
        let cb = packed::CompactBlock::build_from_block(b, &Default::default());
        push(&mut out, &format!("Relay/CompactBlock-{tag}"), packed::RelayMessage::new_builder().set(cb).build().as_slice());
    }
    let rt = packed::RelayTransactions::new_builder()
        .transactions(transactions().into_iter().skip(100).take(2).map(|t| packed::RelayTransaction::new_builder().cycles(7u64).transaction(t.data()).build()).collect::<Vec<_>>().pack())
        .build();
    push(&mut out, "Relay/RelayTransactions", packed::RelayMessage::new_builder().set(rt).build().as_slice());
    let rth = packed::RelayTransactionHashes::new_builder().tx_hashes(hs.clone().pack()).build();
    push(&mut out, "Relay/RelayTransactionHashes", packed::RelayMessage::new_builder().set(rth).build().as_slice());
    let grt = packed::GetRelayTransactions::new_builder().tx_hashes(hs.clone().pack()).build();
    push(&mut out, "Relay/GetRelayTransactions", packed::RelayMessage::new_builder().set(grt).build().as_slice());
    let gbt = packed::GetBlockTransactions::new_builder().block_hash(hs[2].clone()).indexes(vec![0u32, 1, u32::MAX].pack()).uncle_indexes(vec![0u32].pack()).build();
    push(&mut out, "Relay/GetBlockTransactions", packed::RelayMessage::new_builder().set(gbt).build().as_slice());
    let bt = packed::BlockTransactions::new_builder()
        .block_hash(hs[1].clone())
        .transactions(big.transactions().iter().map(|t| t.data()).collect::<Vec<_>>().pack())
        .uncles(big.uncles().data())
        .build();
    push(&mut out, "Relay/BlockTransactions", packed::RelayMessage::new_builder().set(bt).build().as_slice());
    let gbp = packed::GetBlockProposal::new_builder().block_hash(hs[1].clone()).proposals(proposal_ids().pack()).build();
    push(&mut out, "Relay/GetBlockProposal", packed::RelayMessage::new_builder().set(gbp).build().as_slice());
    let bp = packed::BlockProposal::new_builder().transactions(transactions().into_iter().skip(50).take(2).map(|t| t.data()).collect::<Vec<_>>().pack()).build();
    push(&mut out, "Relay/BlockProposal", packed::RelayMessage::new_builder().set(bp).build().as_slice());

    // ---- block filter
    let gbf = packed::GetBlockFilters::new_builder().start_number(5u64).build();
    push(&mut out, "Filter/GetBlockFilters", packed::BlockFilterMessage::new_builder().set(gbf).build().as_slice());
    let bf = packed::BlockFilters::new_builder().start_number(1u64).block_hashes(hs.clone().pack()).filters(byteses().into_iter().map(|b| b.pack()).collect::<Vec<packed::Bytes>>().pack()).build();
    push(&mut out, "Filter/BlockFilters", packed::BlockFilterMessage::new_builder().set(bf).build().as_slice());
    let gbfh = packed::GetBlockFilterHashes::new_builder().start_number(u64::MAX).build();
    push(&mut out, "Filter/GetBlockFilterHashes", packed::BlockFilterMessage::new_builder().set(gbfh).build().as_slice());
    let bfh = packed::BlockFilterHashes::new_builder().start_number(2u64).parent_block_filter_hash(hs[1].clone()).block_filter_hashes(hs.clone().pack()).build();
    push(&mut out, "Filter/BlockFilterHashes", packed::BlockFilterMessage::new_builder().set(bfh).build().as_slice());
    let gcp = packed::GetBlockFilterCheckPoints::new_builder().start_number(0u64).build();
    push(&mut out, "Filter/GetBlockFilterCheckPoints", packed::BlockFilterMessage::new_builder().set(gcp).build().as_slice());
    let cp = packed::BlockFilterCheckPoints::new_builder().start_number(0u64).block_filter_hashes(hs.clone().pack()).build();
    push(&mut out, "Filter/BlockFilterCheckPoints", packed::BlockFilterMessage::new_builder().set(cp).build().as_slice());

    // ---- light client
    let gls = packed::GetLastState::new_builder().subscribe(&true).build();
    push(&mut out, "Light/GetLastState", packed::LightClientMessage::new_builder().set(gls).build().as_slice());
    let vh = packed::VerifiableHeader::new_builder().header(headers()[1].data()).uncles_hash(hs[1].clone()).extension(packed::BytesOpt::new_builder().set(Some(Bytes::from(vec![3u8; 32]).pack())).build()).parent_chain_root(packed::HeaderDigest::default()).build();
    let sls = packed::SendLastState::new_builder().last_header(vh.clone()).build();
    push(&mut out, "Light/SendLastState", packed::LightClientMessage::new_builder().set(sls).build().as_slice());
    let glsp = packed::GetLastStateProof::new_builder().last_hash(hs[1].clone()).start_hash(hs[2].clone()).start_number(3u64).last_n_blocks(4u64).difficulty_boundary(ckb_types::U256::from(77u64)).difficulties(vec![ckb_types::U256::from(1u64), ckb_types::U256::max_value()].into_iter().map(|d| d.pack()).collect::<Vec<packed::Uint256>>().pack()).build();
    push(&mut out, "Light/GetLastStateProof", packed::LightClientMessage::new_builder().set(glsp).build().as_slice());
    let slsp = packed::SendLastStateProof::new_builder().last_header(vh.clone()).proof(vec![packed::HeaderDigest::default()].pack()).headers(vec![vh.clone()].pack()).build();
    push(&mut out, "Light/SendLastStateProof", packed::LightClientMessage::new_builder().set(slsp).build().as_slice());
    let gbp = packed::GetBlocksProof::new_builder().last_hash(hs[1].clone()).block_hashes(hs.clone().pack()).build();
    push(&mut out, "Light/GetBlocksProof", packed::LightClientMessage::new_builder().set(gbp).build().as_slice());
    let sbp = packed::SendBlocksProof::new_builder().last_header(vh.clone()).proof(vec![packed::HeaderDigest::default()].pack()).headers(vec![headers()[0].data()].pack()).missing_block_hashes(hs.clone().pack()).build();
    push(&mut out, "Light/SendBlocksProof", packed::LightClientMessage::new_builder().set(sbp).build().as_slice());
    let gtp = packed::GetTransactionsProof::new_builder().last_hash(hs[1].clone()).tx_hashes(hs.clone().pack()).build();
    push(&mut out, "Light/GetTransactionsProof", packed::LightClientMessage::new_builder().set(gtp).build().as_slice());
    let ftx = packed::FilteredBlock::new_builder().header(headers()[2].data()).witnesses_root(hs[1].clone()).transactions(vec![transactions()[200].data()].pack()).proof(packed::MerkleProof::new_builder().indices(vec![1u32, 2].pack()).lemmas(hs.clone().pack()).build()).build();
    let stp = packed::SendTransactionsProof::new_builder().last_header(vh).proof(vec![packed::HeaderDigest::default()].pack()).filtered_blocks(packed::FilteredBlockVec::new_builder().push(ftx).build()).missing_tx_hashes(hs.pack()).build();
    push(&mut out, "Light/SendTransactionsProof", packed::LightClientMessage::new_builder().set(stp).build().as_slice());
    out
}
