//! Shared machinery: run context, reports, evidence, known findings, sharding.
use serde::{Deserialize, Serialize};
use serde_json::{Value, json};
use std::collections::{BTreeMap, BTreeSet};
use std::hash::{Hash, Hasher};
use std::path::{Path, PathBuf};
use std::time::{Duration, Instant};

/// Root under which evidence/, replays/ and known_findings.txt live.  `/verif` unless
/// `VERIF_ROOT` is set (used only for background runs from a snapshot).
pub fn verif_root() -> PathBuf {
    std::env::var("VERIF_ROOT").map(PathBuf::from).unwrap_or_else(|_| PathBuf::from("/verif"))
}

#[derive(Clone, Copy, Debug, PartialEq, Eq)]
pub enum Tier {
    Quick,
    Thorough,
}

impl Tier {
    pub fn as_str(&self) -> &'static str {
        match self {
            Tier::Quick => "quick",
            Tier::Thorough => "thorough",
        }
    }
    pub fn parse(s: &str) -> Tier {
        match s {
            "thorough" => Tier::Thorough,
            _ => Tier::Quick,
        }
    }
    pub fn is_thorough(&self) -> bool {
        matches!(self, Tier::Thorough)
    }
}

/// Everything a property run needs to know about how it was invoked.
#[derive(Clone, Debug)]
pub struct Ctx {
    pub tier: Tier,
    pub seed: u64,
    pub shard: usize,
    pub shards: usize,
    pub scratch: PathBuf,
    pub started: Instant,
    pub budget: Duration,
    pub replay: Option<PathBuf>,
}

impl Ctx {
    /// The exploration budget is wall time.  For the checks whose enumeration is sized to finish well
    /// inside it on this machine ($VERIF_CPU_BUDGET, set by the orchestrator), a process that has been
    /// starved of CPU - the machine is running many checks at once - keeps going past the wall budget
    /// until it has used 70 % of the budget in CPU time (its own threads and its waited-for
    /// children), at most three times the wall budget: the same work is done on a slow day, and a cap
    /// that is hit is still reported.
    pub fn out_of_time(&self) -> bool {
        let wall = self.started.elapsed();
        if wall < self.budget {
            return false;
        }
        static CPU_AWARE: std::sync::OnceLock<bool> = std::sync::OnceLock::new();
        if !*CPU_AWARE.get_or_init(|| std::env::var("VERIF_CPU_BUDGET").is_ok()) {
            return true;
        }
        wall >= self.budget * 3 || cpu_seconds() >= 0.7 * self.budget.as_secs_f64()
    }
    pub fn mine(&self, index: u64) -> bool {
        (index % self.shards as u64) as usize == self.shard
    }
}

/// CPU seconds used so far by this process (all threads) and by the children it has waited for
pub fn cpu_seconds() -> f64 {
    unsafe extern "C" {
        fn getrusage(who: i32, usage: *mut [i64; 18]) -> i32;
    }
    let mut total = 0.0;
    for who in [0i32, -1] {
        let mut buf = [0i64; 18];
        if unsafe { getrusage(who, &mut buf) } == 0 {
            // ru_utime, ru_stime: two timevals (seconds, microseconds)
            total += buf[0] as f64 + buf[1] as f64 / 1e6 + buf[2] as f64 + buf[3] as f64 / 1e6;
        }
    }
    total
}

pub fn fp<T: Hash>(t: &T) -> u64 {
    let mut h = Fnv(0xcbf29ce484222325);
    t.hash(&mut h);
    h.finish()
}

/// Deterministic hasher (std's default is randomly keyed per process, which would make
/// fingerprints differ between shards).
pub struct Fnv(pub u64);
impl Hasher for Fnv {
    fn finish(&self) -> u64 {
        self.0
    }
    fn write(&mut self, bytes: &[u8]) {
        for b in bytes {
            self.0 ^= *b as u64;
            self.0 = self.0.wrapping_mul(0x100000001b3);
        }
    }
}

#[derive(Clone, Debug, Serialize, Deserialize)]
pub struct Violation {
    /// canonical identifier of the failing input / call site / history class
    pub key: String,
    pub what: String,
    pub replay: Value,
}

/// What one run (or one shard of a run) covered.  Merged across shards by `merge`.
#[derive(Clone, Debug, Default, Serialize, Deserialize)]
pub struct Report {
    pub states: BTreeSet<u64>,
    pub transitions: u64,
    pub traces: u64,
    pub evaluations: u64,
    pub nontrivial: BTreeSet<u64>,
    pub outcomes: BTreeSet<u64>,
    pub samples: Vec<Value>,
    pub violations: Vec<Violation>,
    pub counters: BTreeMap<String, u64>,
    pub notes: Vec<String>,
    pub cap_hit: Option<String>,
    pub machinery_errors: Vec<String>,
}

impl Report {
    pub fn new() -> Self {
        Default::default()
    }
    pub fn clone_for_finish(&self) -> Report {
        self.clone()
    }
    pub fn count(&mut self, k: &str, n: u64) {
        *self.counters.entry(k.to_string()).or_insert(0) += n;
    }
    pub fn max_counter(&mut self, k: &str, n: u64) {
        let e = self.counters.entry(k.to_string()).or_insert(0);
        if n > *e {
            *e = n;
        }
    }
    pub fn sample(&mut self, v: Value) {
        if self.samples.len() < 6 {
            self.samples.push(v);
        }
    }
    pub fn violation(&mut self, key: impl Into<String>, what: impl Into<String>, replay: Value) {
        let key = key.into();
        // one entry per key is enough; keep the first (enumeration is simplest-first)
        if self.violations.iter().any(|v| v.key == key) {
            self.count("violations_duplicate_key", 1);
            return;
        }
        self.violations.push(Violation {
            key,
            what: what.into(),
            replay,
        });
    }
    pub fn merge(&mut self, other: Report) {
        self.states.extend(other.states);
        self.transitions += other.transitions;
        self.traces += other.traces;
        self.evaluations += other.evaluations;
        self.nontrivial.extend(other.nontrivial);
        self.outcomes.extend(other.outcomes);
        for s in other.samples {
            if self.samples.len() < 8 {
                self.samples.push(s);
            }
        }
        for v in other.violations {
            if !self.violations.iter().any(|x| x.key == v.key) {
                self.violations.push(v);
            }
        }
        for (k, n) in other.counters {
            if k.starts_with("max_") {
                self.max_counter(&k, n);
            } else {
                self.count(&k, n);
            }
        }
        for n in other.notes {
            if !self.notes.contains(&n) {
                self.notes.push(n);
            }
        }
        if self.cap_hit.is_none() {
            self.cap_hit = other.cap_hit;
        }
        self.machinery_errors.extend(other.machinery_errors);
    }
}

/// Static description of a property check, used for the evidence file.
pub struct Meta {
    pub id: &'static str,
    pub level: &'static str,
    pub rule: &'static str,
    pub assumptions: &'static [&'static str],
    pub bounds: Value,
}

#[derive(Debug, Clone)]
pub struct KnownFinding {
    pub property: String,
    pub key: String,
    pub what: String,
}

/// `/verif/known_findings.txt`: lines
///   `known: property=<id> key=<key> <what fails>`
///   `fixed: property=<id> <commit> <what failed>`      (suppresses nothing)
pub fn load_known_findings() -> Vec<KnownFinding> {
    let path = verif_root().join("known_findings.txt");
    let mut out = vec![];
    if let Ok(text) = std::fs::read_to_string(path) {
        for line in text.lines() {
            let line = line.trim();
            if let Some(rest) = line.strip_prefix("known:") {
                let mut property = String::new();
                let mut key = String::new();
                let mut what = vec![];
                for tok in rest.split_whitespace() {
                    if let Some(p) = tok.strip_prefix("property=") {
                        property = p.to_string();
                    } else if let Some(k) = tok.strip_prefix("key=") {
                        key = k.to_string();
                    } else {
                        what.push(tok);
                    }
                }
                if !property.is_empty() && !key.is_empty() {
                    out.push(KnownFinding {
                        property,
                        key,
                        what: what.join(" "),
                    });
                }
            }
        }
    }
    out
}

/// Write evidence, replays, print verdict lines; returns the process exit code.
pub fn finish(meta: &Meta, ctx: &Ctx, report: &Report) -> i32 {
    // A universe that cannot be built because the forge - a real node running the code under test,
    // asked to extend or replay chains of blocks it has itself built and fully verified - fails is
    // not a problem of the machinery: ckb refuses (or cannot compute the next block of) an honest
    // chain.  On the unchanged tree this never happens (the universes are built on every run); when
    // it happens after a change, the change broke the node, and the failure is reported as a
    // violation instead of a machinery error.
    let mut owned = report.clone_for_finish();
    {
        const NODE_FAILURES: [(&str, &str); 7] = [
            // (a node whose start-up scan for unverified blocks does not end within 30 s on a database of
            // a dozen blocks: the scanning thread has died or hangs)
            ("InitLoadUnverified did not finish", "startup-scan-never-finished"),
            ("next_epoch_ext", "next-epoch-unknown"),
            ("forge replay of block", "verified-block-refused-on-replay"),
            ("forge could not attach block", "verified-block-not-attached"),
            ("reward: ", "reward-not-computable"),
            ("dao: ", "dao-field-not-computable"),
            ("mmr: ", "chain-root-not-computable"),
        ];
        let mut rest = vec![];
        for e in std::mem::take(&mut owned.machinery_errors) {
            match NODE_FAILURES.iter().find(|(pat, _)| e.contains(pat)) {
                Some((_, kind)) => owned.violation(format!("honest-chain/{kind}"), format!("while building or replaying a universe of honestly built, fully verified blocks the node failed: {e}"), json!({"family": "universe-construction", "error": e})),
                None => rest.push(e),
            }
        }
        owned.machinery_errors = rest;
    }
    // (a run that was capped before its family wrote a sample still describes what it covered)
    if owned.samples.is_empty() {
        let s = json!({"note": "no sample case was recorded before the run ended", "counters": owned.counters, "cap_hit": owned.cap_hit});
        owned.samples.push(s);
    }
    let report = &owned;
    let wall = ctx.started.elapsed().as_secs_f64();
    let known = load_known_findings();
    let mut unknown = vec![];
    let mut known_hit = vec![];
    for v in &report.violations {
        if let Some(k) = known
            .iter()
            .find(|k| k.property == meta.id && k.key == v.key)
        {
            known_hit.push((k.clone(), v.clone()));
        } else {
            unknown.push(v.clone());
        }
    }
    let replay_dir = verif_root().join("replays").join(meta.id);
    let _ = std::fs::create_dir_all(&replay_dir);
    let mut lines = vec![];
    for (k, v) in &known_hit {
        let path = replay_dir.join(format!("known-{}.json", sanitize(&v.key)));
        write_replay(&path, meta, v);
        lines.push(format!(
            "KNOWN-FINDING: property={} key={} {}",
            meta.id, k.key, k.what
        ));
    }
    for v in &unknown {
        let path = replay_dir.join(format!("{}.json", sanitize(&v.key)));
        write_replay(&path, meta, v);
        lines.push(format!(
            "VIOLATION property={} replay={}",
            meta.id,
            path.display()
        ));
        eprintln!("  violation key={} : {}", v.key, v.what);
    }

    let exhaustive = report.cap_hit.is_none();
    let vacuous = report.evaluations > 1 && report.outcomes.len() <= 1 && report.violations.is_empty();
    let mut coverage = json!({
        "evaluations": report.evaluations,
        "distinct_nontrivial": report.nontrivial.len(),
        "rule": meta.rule,
        "samples": report.samples,
        "states": report.states.len(),
        "transitions": report.transitions,
        "traces_validated_against_impl": report.traces,
        "distinct_outcomes": report.outcomes.len(),
        "exhaustive": exhaustive,
        "bounds": meta.bounds,
        "counters": report.counters,
        "notes": report.notes,
        "known_findings_reproduced": known_hit.iter().map(|(k, _)| k.key.clone()).collect::<Vec<_>>(),
        "violation_keys": unknown.iter().map(|v| v.key.clone()).collect::<Vec<_>>(),
    });
    if let Some(c) = &report.cap_hit {
        coverage["cap_hit"] = json!(c);
    }
    let evidence = json!({
        "property_id": meta.id,
        "tier": ctx.tier.as_str(),
        "seed": ctx.seed,
        "level": meta.level,
        "coverage": coverage,
        "assumptions": meta.assumptions,
        "wall_s": wall,
        "violations": unknown.len(),
    });
    let ev_dir = verif_root().join("evidence");
    let _ = std::fs::create_dir_all(&ev_dir);
    let ev_path = ev_dir.join(format!("{}.json", meta.id));
    if ctx.replay.is_none() && meta.id.starts_with('C') {
        std::fs::write(&ev_path, serde_json::to_string_pretty(&evidence).unwrap())
            .expect("write evidence");
    }
    for l in &lines {
        println!("{l}");
    }
    println!(
        "{} tier={} evaluations={} states={} transitions={} traces={} nontrivial={} outcomes={} exhaustive={} wall={:.1}s{}",
        meta.id,
        ctx.tier.as_str(),
        report.evaluations,
        report.states.len(),
        report.transitions,
        report.traces,
        report.nontrivial.len(),
        report.outcomes.len(),
        exhaustive,
        wall,
        report
            .cap_hit
            .as_ref()
            .map(|c| format!(" cap_hit=\"{c}\""))
            .unwrap_or_default()
    );
    if !report.machinery_errors.is_empty() {
        for e in report.machinery_errors.iter().take(4) {
            eprintln!("MACHINERY-ERROR {}: {e}", meta.id);
        }
        if report.machinery_errors.len() > 4 {
            eprintln!("MACHINERY-ERROR {}: ... and {} more", meta.id, report.machinery_errors.len() - 4);
        }
        // a violation that was found stays a verdict (the machinery trouble after it is usually its
        // consequence: a dead thread, a universe that can no longer be built)
        if !unknown.is_empty() {
            return 1;
        }
        return 2;
    }
    if !unknown.is_empty() {
        return 1;
    }
    if vacuous {
        eprintln!(
            "MACHINERY-ERROR {}: vacuous exploration (one distinct outcome)",
            meta.id
        );
        return 2;
    }
    0
}

fn write_replay(path: &Path, meta: &Meta, v: &Violation) {
    let doc = json!({
        "property": meta.id,
        "key": v.key,
        "what": v.what,
        "case": v.replay,
        "replay_cmd": format!("bin/check {} --replay {}", meta.id, path.display()),
    });
    let _ = std::fs::write(path, serde_json::to_string_pretty(&doc).unwrap());
}

pub fn sanitize(s: &str) -> String {
    let mut out: String = s
        .chars()
        .map(|c| if c.is_ascii_alphanumeric() || c == '-' || c == '_' || c == '.' { c } else { '_' })
        .collect();
    if out.len() > 120 {
        let h = fp(&s);
        out.truncate(100);
        out.push_str(&format!("-{h:016x}"));
    }
    out
}

pub fn scratch_root() -> PathBuf {
    if let Ok(p) = std::env::var("VERIF_SCRATCH") {
        return PathBuf::from(p);
    }
    let base = if Path::new("/dev/shm").is_dir() {
        "/dev/shm"
    } else {
        "/tmp"
    };
    PathBuf::from(format!("{base}/ckbmc-{}", std::process::id()))
}

pub fn hex(b: &[u8]) -> String {
    b.iter().map(|x| format!("{x:02x}")).collect()
}

/// Read the `case` field of a replay file.
pub fn load_replay_case(path: &Path) -> Value {
    let text = std::fs::read_to_string(path).expect("read replay file");
    let v: Value = serde_json::from_str(&text).expect("parse replay file");
    v.get("case").cloned().unwrap_or(v)
}

/// Recursive copy of a (closed) node directory; RocksDB's LOCK files are recreated empty.
pub fn copy_dir(from: &Path, to: &Path) -> Result<(), String> {
    std::fs::create_dir_all(to).map_err(|e| e.to_string())?;
    for e in std::fs::read_dir(from).map_err(|e| e.to_string())?.flatten() {
        let p = e.path();
        let t = to.join(e.file_name());
        if p.is_dir() {
            copy_dir(&p, &t)?;
        } else if e.file_name() != "LOCK" {
            std::fs::copy(&p, &t).map_err(|e| format!("copy {}: {e}", p.display()))?;
        } else {
            let _ = std::fs::File::create(&t);
        }
    }
    Ok(())
}



// ---------------------------------------------------------------------------------------
// fsync observation inside this process.  The executable defines `fsync` / `fdatasync` itself, so
// every call of the code under test (std's File::sync_all / sync_data) lands here first; the size
// of the file at that moment is recorded per path and the call is passed on (to an LD_PRELOAD
// interposer if there is one, then to libc).  What a file held at its last completed fsync is what
// a power loss cannot take away: checks read the registry instead of assuming which calls sync what.
pub mod fsync_watch {
    use std::collections::HashMap;
    use std::sync::Mutex;

    static SYNCED: Mutex<Option<HashMap<String, u64>>> = Mutex::new(None);
    /// directories in which the next fsync fails once with EIO
    static FAIL_NEXT: Mutex<Vec<String>> = Mutex::new(Vec::new());

    unsafe extern "C" {
        fn __errno_location() -> *mut i32;
    }

    /// the next fsync / fdatasync of a file under `dir` fails once with EIO
    pub fn fail_next(dir: &std::path::Path) {
        let d = format!("{}/", dir.to_string_lossy());
        let mut g = FAIL_NEXT.lock().unwrap();
        if !g.contains(&d) {
            g.push(d);
        }
    }

    /// is a failure armed for `dir` (not consumed yet)?
    pub fn armed(dir: &std::path::Path) -> bool {
        let d = format!("{}/", dir.to_string_lossy());
        FAIL_NEXT.lock().unwrap().contains(&d)
    }

    pub fn disarm(dir: &std::path::Path) {
        let d = format!("{}/", dir.to_string_lossy());
        FAIL_NEXT.lock().unwrap().retain(|x| x != &d);
    }

    fn must_fail(fd: i32) -> bool {
        let Ok(path) = std::fs::read_link(format!("/proc/self/fd/{fd}")) else { return false };
        let p = path.to_string_lossy().to_string();
        let mut g = match FAIL_NEXT.lock() {
            Ok(g) => g,
            Err(_) => return false,
        };
        if g.is_empty() {
            return false;
        }
        match g.iter().position(|d| p.starts_with(d.as_str())) {
            Some(i) => {
                g.remove(i);
                unsafe { *__errno_location() = 5 };
                true
            }
            None => false,
        }
    }

    unsafe extern "C" {
        fn dlsym(handle: *mut std::ffi::c_void, symbol: *const std::ffi::c_char) -> *mut std::ffi::c_void;
    }
    const RTLD_NEXT: *mut std::ffi::c_void = -1isize as *mut std::ffi::c_void;

    fn record(fd: i32) {
        let Ok(path) = std::fs::read_link(format!("/proc/self/fd/{fd}")) else { return };
        let Ok(meta) = std::fs::metadata(&path) else { return };
        if let Ok(mut g) = SYNCED.lock() {
            if let Some(m) = g.as_mut() {
                m.insert(path.to_string_lossy().to_string(), meta.len());
            }
        }
    }

    fn pass_on(name: &'static [u8], fd: i32) -> i32 {
        type F = unsafe extern "C" fn(i32) -> i32;
        let sym = unsafe { dlsym(RTLD_NEXT, name.as_ptr() as *const std::ffi::c_char) };
        if sym.is_null() {
            return 0;
        }
        let f: F = unsafe { std::mem::transmute(sym) };
        unsafe { f(fd) }
    }

    #[unsafe(no_mangle)]
    pub extern "C" fn fsync(fd: i32) -> i32 {
        if must_fail(fd) {
            return -1;
        }
        let r = pass_on(b"fsync\0", fd);
        if r == 0 {
            record(fd);
        }
        r
    }

    #[unsafe(no_mangle)]
    pub extern "C" fn fdatasync(fd: i32) -> i32 {
        if must_fail(fd) {
            return -1;
        }
        let r = pass_on(b"fdatasync\0", fd);
        if r == 0 {
            record(fd);
        }
        r
    }

    /// start recording (idempotent)
    pub fn enable() {
        let mut g = SYNCED.lock().unwrap();
        if g.is_none() {
            *g = Some(HashMap::new());
        }
    }

    /// forget what is known about files under `dir`
    pub fn forget(dir: &std::path::Path) {
        let prefix = dir.to_string_lossy().to_string();
        if let Some(m) = SYNCED.lock().unwrap().as_mut() {
            m.retain(|k, _| !k.starts_with(&prefix));
        }
    }

    /// file name -> size at its last observed fsync, for files directly under `dir`
    pub fn synced_under(dir: &std::path::Path) -> HashMap<String, u64> {
        let prefix = format!("{}/", dir.to_string_lossy());
        SYNCED.lock().unwrap().as_ref().map(|m| m.iter().filter_map(|(k, v)| k.strip_prefix(&prefix).filter(|r| !r.contains('/')).map(|r| (r.to_string(), *v))).collect()).unwrap_or_default()
    }
}
