/* LD_PRELOAD interposer: logs every successful fsync / fdatasync / sync_file_range of the process
 * (path and file size at that moment) to the file named by $FSYNCLOG.  Used by the power-loss
 * families of C10: what a file held at its last completed fsync is what survives a power loss;
 * everything after that may be gone. */
#define _GNU_SOURCE
#include <dlfcn.h>
#include <fcntl.h>
#include <stdio.h>
#include <stdlib.h>
#include <sys/stat.h>
#include <unistd.h>

static void logit(int fd, const char *what) {
    const char *p = getenv("FSYNCLOG");
    if (!p) return;
    char link[64], path[4096];
    snprintf(link, sizeof link, "/proc/self/fd/%d", fd);
    ssize_t n = readlink(link, path, sizeof path - 1);
    if (n <= 0) return;
    path[n] = 0;
    struct stat st;
    if (fstat(fd, &st)) return;
    char buf[4400];
    int m = snprintf(buf, sizeof buf, "%s %s %lld\n", what, path, (long long)st.st_size);
    int o = open(p, O_WRONLY | O_APPEND | O_CREAT, 0644);
    if (o >= 0) {
        if (write(o, buf, m) < 0) { /* nothing to do */ }
        close(o);
    }
}

/* $VERIF_IOFAIL_SYNC = "<path substring>:<n>": the n-th fsync / fdatasync (counted from the moment
 * the variable took this value) of a file whose path contains the substring fails with EIO, once;
 * logged to $FSYNCLOG as "syncfail <path> <n>". */
#include <errno.h>
#include <string.h>
static int sync_must_fail(int fd) {
    static char last[256];
    static long seen;
    static int fired;
    const char *spec = getenv("VERIF_IOFAIL_SYNC");
    if (!spec || !*spec) return 0;
    if (strncmp(spec, last, sizeof last - 1) != 0) {
        strncpy(last, spec, sizeof last - 1);
        seen = 0;
        fired = 0;
    }
    const char *colon = strrchr(spec, ':');
    if (!colon || fired) return 0;
    long n = atol(colon + 1);
    char sub[200];
    size_t sl = (size_t)(colon - spec);
    if (sl >= sizeof sub) sl = sizeof sub - 1;
    memcpy(sub, spec, sl);
    sub[sl] = 0;
    char link[64], path[4096];
    snprintf(link, sizeof link, "/proc/self/fd/%d", fd);
    ssize_t m = readlink(link, path, sizeof path - 1);
    if (m <= 0) return 0;
    path[m] = 0;
    if (!strstr(path, sub)) return 0;
    seen++;
    if (seen != n) return 0;
    fired = 1;
    const char *lp = getenv("FSYNCLOG");
    if (lp) {
        char line[4400];
        int k = snprintf(line, sizeof line, "syncfail %s %ld\n", path, n);
        int o = open(lp, O_WRONLY | O_APPEND | O_CREAT, 0644);
        if (o >= 0) {
            if (write(o, line, k) < 0) { /* nothing to do */ }
            close(o);
        }
    }
    return 1;
}

int fsync(int fd) {
    static int (*real)(int);
    if (!real) real = (int (*)(int))dlsym(RTLD_NEXT, "fsync");
    if (sync_must_fail(fd)) { errno = EIO; return -1; }
    int r = real(fd);
    if (r == 0) logit(fd, "fsync");
    return r;
}

int fdatasync(int fd) {
    static int (*real)(int);
    if (!real) real = (int (*)(int))dlsym(RTLD_NEXT, "fdatasync");
    if (sync_must_fail(fd)) { errno = EIO; return -1; }
    int r = real(fd);
    if (r == 0) logit(fd, "fdatasync");
    return r;
}

/* Transient write errors.  $VERIF_IOFAIL = "<path substring>:<n>": the n-th write(2) (counted from
 * the moment the variable took this value) to a file whose path contains the substring fails with
 * ENOSPC, once; the event is logged to $FSYNCLOG as "iofail <path> <n>".  Used by the I/O-error
 * family of C10 (a disk that is full for a moment). */
#include <errno.h>
#include <string.h>
ssize_t write(int fd, const void *buf, size_t count) {
    static ssize_t (*real)(int, const void *, size_t);
    static char last[256];
    static long seen;
    static int fired;
    if (!real) real = (ssize_t (*)(int, const void *, size_t))dlsym(RTLD_NEXT, "write");
    const char *spec = getenv("VERIF_IOFAIL");
    if (spec && *spec) {
        if (strncmp(spec, last, sizeof last - 1) != 0) {
            strncpy(last, spec, sizeof last - 1);
            seen = 0;
            fired = 0;
        }
        const char *colon = strrchr(spec, ':');
        if (colon && !fired) {
            long n = atol(colon + 1);
            char sub[200];
            size_t sl = (size_t)(colon - spec);
            if (sl >= sizeof sub) sl = sizeof sub - 1;
            memcpy(sub, spec, sl);
            sub[sl] = 0;
            char link[64], path[4096];
            snprintf(link, sizeof link, "/proc/self/fd/%d", fd);
            ssize_t m = readlink(link, path, sizeof path - 1);
            if (m > 0) {
                path[m] = 0;
                if (strstr(path, sub)) {
                    seen++;
                    if (seen == n) {
                        fired = 1;
                        const char *lp = getenv("FSYNCLOG");
                        if (lp) {
                            char line[4400];
                            int k = snprintf(line, sizeof line, "iofail %s %ld\n", path, n);
                            int o = open(lp, O_WRONLY | O_APPEND | O_CREAT, 0644);
                            if (o >= 0) {
                                if (real(o, line, k) < 0) { /* nothing to do */ }
                                close(o);
                            }
                        }
                        errno = ENOSPC;
                        return -1;
                    }
                }
            }
        }
    }
    return real(fd, buf, count);
}
