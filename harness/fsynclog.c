/* LD_PRELOAD interposer: logs every successful fsync / fdatasync / sync_file_range of the process
 * (path and file size at that moment) to the file named by $FSYNCLOG.  Used by the power-loss
 * families of C10: what a file held at its last completed fsync is what survives a power loss;
 * everything after that may be gone. */
#define _GNU_SOURCE
#include <dlfcn.h>
#include <fcntl.h>
#include <stdio.h>
#include <stdlib.h>
#include <sys/stat.h>
#include <unistd.h>

static void logit(int fd, const char *what) {
    const char *p = getenv("FSYNCLOG");
    if (!p) return;
    char link[64], path[4096];
    snprintf(link, sizeof link, "/proc/self/fd/%d", fd);
    ssize_t n = readlink(link, path, sizeof path - 1);
    if (n <= 0) return;
    path[n] = 0;
    struct stat st;
    if (fstat(fd, &st)) return;
    char buf[4400];
    int m = snprintf(buf, sizeof buf, "%s %s %lld\n", what, path, (long long)st.st_size);
    int o = open(p, O_WRONLY | O_APPEND | O_CREAT, 0644);
    if (o >= 0) {
        if (write(o, buf, m) < 0) { /* nothing to do */ }
        close(o);
    }
}

int fsync(int fd) {
    static int (*real)(int);
    if (!real) real = (int (*)(int))dlsym(RTLD_NEXT, "fsync");
    int r = real(fd);
    if (r == 0) logit(fd, "fsync");
    return r;
}

int fdatasync(int fd) {
    static int (*real)(int);
    if (!real) real = (int (*)(int))dlsym(RTLD_NEXT, "fdatasync");
    int r = real(fd);
    if (r == 0) logit(fd, "fdatasync");
    return r;
}
