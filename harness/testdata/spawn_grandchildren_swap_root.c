// Root spawns one child and exits as soon as it gets to run again. The child spawns
// four grandchildren, then everybody but the root blocks in wait(0). Booting the
// grandchildren swaps the (still runnable) root VM out, so the last iteration of the
// scheduler has to swap it back in before the root can exit.
//
// Build (freestanding, no libc):
//   clang --target=riscv64-unknown-elf -march=rv64imc -mabi=lp64 -O1 -nostdlib -static \
//     -fuse-ld=lld -Wl,-e,_start -Wl,--no-dynamic-linker -o spawn_grandchildren_swap_root \
//     spawn_grandchildren_swap_root.c
typedef unsigned long u64;

static inline long sys(long n, long a0, long a1, long a2, long a3, long a4) {
    register long r0 __asm__("a0") = a0;
    register long r1 __asm__("a1") = a1;
    register long r2 __asm__("a2") = a2;
    register long r3 __asm__("a3") = a3;
    register long r4 __asm__("a4") = a4;
    register long r7 __asm__("a7") = n;
    __asm__ volatile("ecall" : "+r"(r0) : "r"(r1), "r"(r2), "r"(r3), "r"(r4), "r"(r7) : "memory");
    return r0;
}

struct spawn_args {
    u64 argc;
    const char** argv;
    u64* process_id;
    const u64* inherited_fds;
};

static long spawn_self(u64 argc) {
    const char* argv[3] = {"x", "x", 0};
    u64 pid = 0;
    u64 fds[1] = {0};
    struct spawn_args spgs = {argc, argv, &pid, fds};
    // index 0, source cell_dep (3), place cell data (0), no bounds
    return sys(2601, 0, 3, 0, 0, (long)&spgs);
}

long c_main(long argc) {
    if (argc == 0) {
        long err = spawn_self(1);
        return err;
    }
    if (argc == 1) {
        for (int i = 0; i < 4; i++) {
            long err = spawn_self(2);
            if (err != 0) return 10 + err;
        }
    }
    signed char code = 0;
    sys(2602, 0, (long)&code, 0, 0, 0);
    return 1;
}

__attribute__((naked)) void _start(void) {
    __asm__ volatile(
        "ld a0, 0(sp)\n"
        "call c_main\n"
        "li a7, 93\n"
        "ecall\n");
}
